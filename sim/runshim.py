"""Run mode (-r): simulated child process, pipe and thread schedule.

runner.subprocess / runner.os are rebound to the shims below.  The helper thread is the real
threading.Thread that run_program creates; it and the main thread run one at a time, the baton being
handed over at each sync point (child write / child exit / os.close of the write end / reader's raw
read) to an actor chosen by the seeded scheduler.
"""
import io
import os
import random
import subprocess as real_subprocess
import threading

from .rig import SimDeadlock, HarnessError

R_FD = 1001
W_FD = 1002


class Baton:
    ORDER = ('child', 'reader')

    def __init__(self, rng, rec, script=None):
        self.script = list(script) if script is not None else None     # scripted 2-way decisions (exhaustive walks)
        self.decisions = []                                            # (number of runnable actors, index chosen)
        self.cv = threading.Condition()
        self.state = {'child': 'running', 'reader': 'running'}
        self.pending = {}
        self.turn = None
        self.rng = rng
        self.rec = rec
        self.deadlock = False
        self.child_started = False
        self.trace = []

    def park(self, me, runnable, what):
        with self.cv:
            if self.deadlock:
                raise SimDeadlock('deadlock')
            self.state[me] = 'parked'
            self.pending[me] = (runnable, what)
            self._maybe_choose()
            waited = 0.0
            while self.turn != me:
                if self.deadlock:
                    self.state[me] = 'running'
                    raise SimDeadlock('no runnable actor: ' + repr({k: v[1] for k, v in self.pending.items()}))
                if not self.cv.wait(timeout=0.25):
                    waited += 0.25
                    if (me == 'reader' and self.state['child'] == 'running' and self.child_started and
                            not any(t.name == 'subprocess' and t.is_alive() for t in threading.enumerate())):
                        # the helper thread ended without closing the write end
                        self.state['child'] = 'done'
                        self._maybe_choose()
                        continue
                    if waited >= 6:
                        self.deadlock = True
                        self.cv.notify_all()
                        raise SimDeadlock('actor %s waited 6 s for the other actor to reach a sync point' % me)
            self.turn = None
            self.state[me] = 'running'
            del self.pending[me]
            self.trace.append(me[0])

    def finish(self, me):
        with self.cv:
            self.state[me] = 'done'
            self.pending.pop(me, None)
            self._maybe_choose()

    def _maybe_choose(self):
        if self.turn is not None:
            return
        if any(s == 'running' for s in self.state.values()):
            return
        parked = [a for a in self.ORDER if self.state[a] == 'parked']
        if not parked:
            return
        runnable = [a for a in parked if self.pending[a][0]()]
        if not runnable:
            self.deadlock = True
            self.cv.notify_all()
            return
        if len(runnable) > 1:
            if self.script is not None:
                idx = self.script.pop(0) if self.script else 0
            else:
                idx = self.rng.randrange(len(runnable))
            self.decisions.append((len(runnable), idx))
            self.turn = runnable[idx]
        else:
            self.turn = runnable[0]
        self.cv.notify_all()


class Pipe:
    def __init__(self, cap):
        self.cap = cap
        self.buf = bytearray()
        self.writers = 1          # the parent's copy of the write end
        self.reader_open = True
        self.written = 0
        self.delivered = 0


class PipeRaw(io.RawIOBase):
    def __init__(self, shim):
        super().__init__()
        self.shim = shim
        self.k = 0
        self.eof = False

    def readable(self):
        return True

    def readinto(self, b):
        sh = self.shim
        p = sh.pipe
        k = self.k
        self.k += 1
        if sh.on_read is not None:
            sh.on_read(k, p.delivered)
        if self.eof:
            sh.rec.add('read', 0)
            return 0
        sh.baton.park('reader', lambda: len(p.buf) > 0 or p.writers == 0, 'read')
        if p.buf:
            n = min(len(b), len(p.buf))
            b[:n] = p.buf[:n]
            del p.buf[:n]
            p.delivered += n
            sh.rec.add('read', n)
            return n
        self.eof = True
        sh.rec.add('read', 0)
        sh.baton.finish('reader')
        return 0

    def close(self):
        if not self.closed:
            sh = self.shim
            sh.pipe.reader_open = False
            if not self.eof:
                # reader goes away early (interrupt): let the child run to completion on its own
                sh.baton.finish('reader')
            sh.rec.add('reader-closed', sh.pipe.delivered)
        super().close()


class Completed:
    def __init__(self, returncode):
        self.returncode = returncode


class RunShim:
    """cfg: data (bytes the child writes to stderr), writes (chunk sizes), cap (pipe capacity),
    status (exit status), sched_seed, environ (parent's environment)"""

    def __init__(self, data, writes, cap, status, sched_seed, environ, rec, on_read=None, exit_early=False, script=None):
        self.data = data
        self.writes = list(writes) or [1 << 20]
        self.status = status
        self.rec = rec
        self.on_read = on_read
        self.baton = Baton(random.Random('%s/baton' % sched_seed), rec, script=script)
        self.pipe = Pipe(cap)
        self.environ = dict(environ)
        self.calls = []           # every subprocess.run call: (args, kwargs)
        self.closed_fds = []
        self.fdopen_calls = []
        self.pipes_made = 0
        self.child_exited = False
        self.errors = []
        shim = self

        class OsShim:
            environ = shim.environ

            def __getattr__(self, n):
                return getattr(os, n)

            def pipe(self):
                shim.pipes_made += 1
                return (R_FD, W_FD)

            def fdopen(self, fd, *a, **kw):
                shim.fdopen_calls.append((fd, a, kw))
                if fd != R_FD:
                    raise HarnessError('fdopen of unexpected fd %r' % (fd,))
                mode = a[0] if a else kw.get('mode', 'r')
                raw = PipeRaw(shim)
                shim.raw = raw
                if 'b' in mode:
                    return io.BufferedReader(raw, 8192)
                return io.TextIOWrapper(io.BufferedReader(raw, 8192), encoding=kw.get('encoding') or 'utf-8',
                                        errors=kw.get('errors') or 'strict', newline=kw.get('newline'))

            def close(self, fd):
                shim.closed_fds.append(fd)
                if fd == W_FD:
                    shim.baton.park('child', lambda: True, 'close-write-end')
                    shim.pipe.writers -= 1
                    shim.rec.add('parent-closed-write-end')
                    shim.baton.finish('child')

        class SubprocessShim:
            def __getattr__(self, n):
                return getattr(real_subprocess, n)

            def run(self, args, **kw):
                shim.calls.append((list(args) if isinstance(args, (list, tuple)) else args, dict(kw)))
                shim.rec.add('spawn', list(args) if isinstance(args, (list, tuple)) else args)
                shim.baton.child_started = True
                p = shim.pipe
                stderr = kw.get('stderr')
                writes_to_pipe = (stderr == W_FD)
                if writes_to_pipe:
                    p.writers += 1
                pos = 0
                wi = 0
                try:
                    while writes_to_pipe and pos < len(shim.data):
                        want = shim.writes[wi % len(shim.writes)]
                        wi += 1
                        end = min(len(shim.data), pos + max(1, want))
                        while pos < end:
                            shim.baton.park('child', lambda: len(p.buf) < p.cap or not p.reader_open, 'write')
                            if not p.reader_open:
                                raise BrokenPipeError()
                            n = min(end - pos, p.cap - len(p.buf))
                            p.buf += shim.data[pos:pos + n]
                            pos += n
                            p.written += n
                            shim.rec.add('child-write', n)
                    shim.baton.park('child', lambda: True, 'exit')
                    status = shim.status
                except BrokenPipeError:
                    status = -13
                if writes_to_pipe:
                    p.writers -= 1
                shim.child_exited = True
                shim.rec.add('child-exit', status)
                return Completed(status)

        class PatientThread(threading.Thread):
            # run_program joins its helper with a 1 s real-time timeout; after its last sync point the helper needs
            # microseconds, but on a loaded machine a scheduling stall must not turn into an assertion. The timeout is the
            # one real-time element of run mode; stretch it (a helper that never ends is still reported, 20 s later).
            def join(self, timeout=None):
                return super().join(None if timeout is None else max(timeout, 20.0))

        class ThreadingShim:
            Thread = PatientThread

            def __getattr__(self, n):
                return getattr(threading, n)

        self.os_shim = OsShim()
        self.subprocess_shim = SubprocessShim()
        self.threading_shim = ThreadingShim()
