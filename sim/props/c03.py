"""C03 — object lifetimes: alive from creation to delete_id, never resurrected; lifespans."""
import random

from .. import logworld as L
from .. import world as W
from .. import rig
from .. import oracles
from . import common
from . import c02

ID = 'C03'
LEVEL = 'exploration'
RUNS = {'quick': 6400}
BUDGET_S = {'thorough': 600}
RULE = ('one evaluation = one simulated session as in C02, with timestamps taken from the simulator clock (equal stamps, '
        'sub-ms steps, gaps around one second, minutes; random 32-bit epoch). After every message the alive flag of every '
        'object reachable from the tool\'s messages is compared with ground truth. Non-trivial = the history destroys at '
        'least one object (delete_id or implicit server-id re-use); distinct = distinct hash of (table shape, destroy pattern)')
REAL = c02.REAL
STUBBED = c02.STUBBED
ASSUMPTIONS = c02.ASSUMPTIONS + ['lifespans are compared with the tolerance of their printed precision (0.5e-4 s)']
SHRINK_FIELDS = ['intents']
simplifications = c02.simplifications


GDB_LANES = c02.GDB_LANES


def generate(seed, tier, index):
    if c02.in_gdb_world():
        return c02.gen_gdb(seed, tier, ID)
    sc = c02.gen_common(seed, tier, index, profile_choices=('mixed', 'churn', 'objects', 'objects'), deep_ok=True)
    sc['prop'] = ID
    return sc


def execute(sc):
    if sc['config'].get('world') == 'gdb':
        from . import c18
        V = common.Viol()
        sim, st, names, items, exc = c02.observe_gdb(sc)
        V.counters.update(sim.counters)
        if exc:
            V.add('C03/alive-set', 'exception:' + c18.trigger_of(exc), exc[-1200:])
        else:
            A = common.Viol()
            py2inc = oracles.check_attribution(st, sim.tracker, A, names=names)
            if A.list:
                V.bump('attribution_broken_not_judged_here')
            oracles.check_lifetimes(st, sim.tracker, V, py2inc, names=names, items=items)
        r = c02.finish_gdb(sc, sim, st, V)
        destroyed = [it for _, it in st.lines if it.destroys is not None or it.implicit_destroys]
        if not destroyed:
            r['nt_keys'] = []
        return r
    st, res, tr = c02.observe(sc)
    V = common.Viol()
    if res.exception is not None:
        V.add('C03/alive-set', 'exception:' + type(res.exception).__name__, res.traceback[-1500:])
    else:
        items = L.out_items(res.rec)
        A = common.Viol()     # attribution problems are C02's; here they only limit what can be judged
        py2inc = oracles.check_attribution(st, tr, A)
        if A.counters.get('probe_stray_message_on_a_never_created_id'):
            V.bump('probe_stray_message_on_a_never_created_id', A.counters['probe_stray_message_on_a_never_created_id'])
        if A.list:
            V.bump('attribution_broken_not_judged_here')
        oracles.check_lifetimes(st, tr, V, py2inc, items=items)
    destroyed = 0
    pattern = []
    for _, it in st.lines:
        if isinstance(it, W.Closure):
            if it.destroys is not None:
                destroyed += 1
                pattern.append('d%d' % it.destroys.gen)
                V.bump('probe_delete_id')
                if it.destroys.t_destroy == it.destroys.t_create:
                    V.bump('probe_zero_lifespan')
            for x in it.implicit_destroys:
                destroyed += 1
                pattern.append('i%d' % x.gen)
                V.bump('probe_implicit_destroy')
    r = c02.finish(sc, st, res, tr, V)
    shape, _ = c02.table_shape(st)
    r['nt_keys'] = [repr(shape) + ''.join(pattern)[:80]] if destroyed else []
    return r
