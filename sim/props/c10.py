"""C10 — GDB halts the program at a message iff it matches the breakpoint matcher; resume / quit / other commands."""
import random

from .. import logworld as L
from .. import world as W
from .. import refmatch as R
from .. import session as S
from .. import oracles
from .. import rig
from . import common
from . import c15
from . import c18

ID = 'C10'
WORLD = 'gdb'
LOG_LANES = (15,)      # one lane without the fake gdb module: the prompt loop of file mode reached through main.main
LEVEL = 'exploration'
RUNS = {'quick': 6400}
BUDGET_S = {'thorough': 600}
RULE = ('one evaluation = one simulated GDB session: messages on 1-3 connections from 1-3 inferior threads interleaved by the seeded '
        'scheduler with user commands typed whenever the inferior is halted (by a matching message, or by a user interrupt): '
        'wlbreakpoint / wlfilter / wlconnection / wllist / wlhelp / garbage / wlresume / wlquit / plain gdb continue, through the '
        'registered spellings (wl <cmd>, w <cmd>, wayland <cmd>, wl<cmd>, abbreviations); gdb.execute("continue") re-enters the '
        'inferior loop synchronously as real gdb does. A second workload (index mod 5 == 4) drives the prompt loop of file/run mode '
        '(TerminalUI.run_until_stopped) with scripted input. Non-trivial = at least one message halted the program and at least '
        'one did not, and at least one command was typed; distinct = hash of the event sequence (message / halt / command kinds)')
REAL = ['backends/gdb_plugin/plugin.py (breakpoints, commands, invoke_command, process_message)', 'extract.py', 'Controller',
        'PersistentUIState', 'TerminalUI (second workload)', 'core.matcher']
STUBBED = c15.STUBBED + ['input() (scripted)']
ASSUMPTIONS = c15.ASSUMPTIONS + ['reference matcher decides must / must-not; don\'t-care outcomes are counted, never judged',
                                 'a command typed while the program runs is modelled as a user interrupt (a stop that is not ours) followed by the command']
SHRINK_FIELDS = ['intents']

FULL = {'filter': 'filter', 'breakpoint': 'breakpoint', 'list': 'list', 'connection': 'connection', 'other': None}


def gdb_spelling(rng, text, meta):
    word, _, rest = text.partition(' ')
    r = rng.random()
    t = meta.get('t')
    if r < 0.3 and FULL.get(t):
        return 'wl' + FULL[t] + (' ' + rest if rest else '')
    if r < 0.55:
        return 'wl ' + text
    if r < 0.7:
        return 'w ' + text
    if r < 0.8:
        return 'wayland ' + text
    return 'wl ' + text


def generate(seed, tier, index):
    rng = random.Random('%d/gen' % seed)
    import os
    log_world = os.environ.get('VERIF_WORLD') == 'log'
    if index % 5 == 4 or log_world:
        return generate_prompt(seed, rng, log_world)
    nslots = rng.choice([1, 2, 2, 3])
    n = rng.randint(6, 60 if tier == 'quick' else 150)
    sides = [rng.choice(['client', 'server']) for _ in range(nslots)]
    traffic = []
    for s in range(nslots):
        if rng.random() < 0.8:
            traffic.append(['act', s, 'get_registry', 0, 0, rng.randrange(1 << 30), 0])
    traffic += c15.gen_gdb_traffic(rng, seed, nslots, n, p_destroy=rng.choice([0.0, 0.0, 0.04, 0.1]), p_foreign_thread=0.03)
    if nslots >= 2 and rng.random() < 0.2:
        # aim at `wlconnection <x>` where <x> is another connection's letter and an earlier connection's app id
        from . import c06
        traffic = [it + [0] if it[0] == 'act' and len(it) == 6 else it for it in c06.app_id_flavour(rng, traffic, nslots)]
    # vocabulary: replay the traffic in a plain world (slot -> connection in order of first use)
    w = W.World(seed, 0, ['client'], rig.REPO)
    slotconn = {}
    for it in traffic:
        if it[0] == 'act':
            if it[1] not in slotconn:
                c = W.ConnState(len(w.conns), sides[it[1] % len(sides)], w)
                w.conns.append(c)
                slotconn[it[1]] = c.index
            w.act(slotconn[it[1]], it[2], it[3], it[4], it[5])
        elif it[0] == 'tick':
            w.tick(it[1])
        elif it[0] == 'destroy':
            slotconn.pop(it[1] % nslots, None)
    st = c15.FakeStream()
    st.world = w
    st.lines = [(None, x) for x in w.items]
    names = oracles.conn_names(st)
    voc = R.Vocab(st, names)
    cfg = {'kind': 'gdb', 'nslots': nslots, 'sides': sides, 'synth': True, 'suppress': rng.random() < 0.5}
    if rng.random() < 0.6:
        m = R.gen_matcher(rng, voc, p_const=0.05)
        cfg['break'] = R.render(m)
        cfg['break_model'] = m
    if rng.random() < 0.3:
        m = R.gen_matcher(rng, voc, p_const=0.1)
        cfg['filter'] = R.render(m)
        cfg['filter_model'] = m
    orphan_flavour = rng.random() < 0.12
    if orphan_flavour:
        # messages on objects the tool cannot resolve (gdb attached after they were created): with `*` as the breakpoint
        # every message must halt, on the selected connection or on all - whatever the object table knows
        m = {'kind': 'star'}
        cfg['break'] = '*'
        cfg['break_model'] = m
        cfg.pop('filter', None)
        cfg.pop('filter_model', None)
        cfg['orphans'] = True
        t2 = []
        for it in traffic:
            t2.append(it)
            if it[0] == 'act' and rng.random() < 0.25:
                t2.append(['act', it[1], 'orphan', rng.randrange(1 << 30), rng.randrange(1 << 30), rng.randrange(1 << 30), 0])
        traffic = t2
    cmds = S.gen_commands(rng, voc, rng.randint(1, 8), {'connection': 1} if orphan_flavour else
                          {'breakpoint': 8, 'filter': 2, 'connection': 3, 'list': 2, 'other': 2})
    out = []
    for c in cmds:
        out.append(['cmd', gdb_spelling(rng, c[1], c[2]), c[2]])
    for _ in range(rng.randint(0, 4)):
        r = rng.random()
        if r < 0.45:
            out.append(['cmd', rng.choice(['wlresume', 'wl resume', 'wl r', 'w res', 'wayland resume']), {'t': 'resume'}])
        elif r < 0.6:
            out.append(['cmd', rng.choice(['wlquit', 'wl quit', 'wl q']), {'t': 'quit'}])
        elif r < 0.8:
            out.append(['cmd', 'continue', {'t': 'plain-continue'}])
        else:
            from . import c18
            junk = c18.gen_command(rng, voc).replace('\n', ' ').replace('\r', ' ')[:300]
            # (anything that could resolve to resume/quit is left to the scripted resume/quit commands above)
            if c18_could_end(junk):
                junk = 'xyz'
            out.append(['cmd', rng.choice(['wl xyz', 'wl', 'wl  ', 'wl 42', 'wlhelp nosuch', 'wl l ~ x', 'wl ' + junk, 'wl ' + junk]), {'t': 'other'}])
    intents = S.insert_commands(rng, traffic, out)
    if rng.random() < 0.15:
        # output-side fault: Ctrl-C lands inside the k-th gdb.write made by a command that changes nothing (list, help, junk)
        cfg['ctrl_c_in_command_output'] = rng.choice([0, 0, 1, 2, 3, 5, 8])
    return {'prop': ID, 'seed': seed, 'config': cfg, 'intents': intents}


def c18_could_end(text):
    t = text
    for _ in range(50):
        if ends_prompt(t):
            return True
        parts = t.strip().split(None, 1)
        if not parts or parts[0] not in ('w', 'wl') or len(parts) < 2:
            break
        t = parts[1]
    first = t.strip().split(None, 1)[0] if t.strip() else ''
    if first.startswith('wl'):
        first = first[2:]
    # junk must not change the modelled state either: nothing that could resolve to resume / quit / breakpoint / filter / connection
    risky = ('resume', 'quit', 'breakpoint', 'filter', 'connection')
    return (bool(first) and any(n.startswith(first.lower()) for n in risky)) or '\x1b' in text or not first


def generate_prompt(seed, rng, log_world=False):
    script = []
    for _ in range(rng.randint(0, 8)):
        script.append(rng.choice(['help', 'list', 'filter wl_surface', 'breakpoint .commit', 'connection', 'xyz', '', 'l ~ 1', 'm a.b',
                                  'wl list', 'resum', 'qui', 'r e', 'resume x', 'quit now']))
    enders = [rng.choice(['resume', 'r', 'res', 'quit', 'q', 'wl resume', 'wlquit', 'w q', 'wlresume'])]
    tail = [rng.choice(['list', 'quit', 'resume', 'help']) for _ in range(rng.randint(0, 3))]
    # the prompt loop on its own, or reached the way a user reaches it: main.main in file mode, the log read to its end - or
    # not there at all (I/O fault: open() fails with FileNotFoundError; the tool reports it and prompts all the same)
    via = rng.choice(['component', 'main-file', 'main-file', 'main-file-missing']) if log_world else 'component'
    return {'prop': ID, 'seed': seed, 'config': {'kind': 'prompt', 'rounds': rng.randint(1, 2), 'via': via}, 'intents': [],
            'script': script + enders + tail}


def ends_prompt(cmd):
    """does this command line end the prompt loop? (mirror of the documented command abbreviation rules)"""
    parts = cmd.strip().split(None, 1)
    if not parts:
        return False
    first = parts[0]
    if first in ('w', 'wl'):
        return ends_prompt(parts[1]) if len(parts) > 1 else False
    if first.startswith('wl'):
        first = first[2:]
    names = ['help', 'list', 'filter', 'breakpoint', 'matcher', 'connection', 'resume', 'quit']
    hits = [n for n in names if n.startswith(first)]
    return len(hits) == 1 and hits[0] in ('resume', 'quit')


def execute_prompt(sc):
    V = common.Viol()
    t = rig.tool()
    rig.reset_globals()
    rec = rig.Recorder()
    rig.install_logging(rec)
    out = t['Output'](False, True, t['RecStream'](rec, 'out'), t['RecStream'](rec, 'err'))
    t['protocol'].load_all(out)
    script = sc['script']
    want = 0
    for i, c in enumerate(script):
        want = i + 1
        if ends_prompt(c):
            break
    else:
        want = len(script) + 1     # would keep prompting: the scripted user runs out
    exc = None
    calls = 0
    via = sc['config'].get('via', 'component')
    if via != 'component':
        data = b'' if via == 'main-file-missing' else (
            b'[1000.000]  -> wl_display@1.get_registry(new id wl_registry@2)\nhello\n[1000.500] wl_registry@2.global(1, "wl_shm", 1)\n')
        res = rig.run_main(['main.py', '--no-color', '-l', '/sim/session.log'], data, [1 << 20], script=script, rec=rec,
                           open_error='FileNotFoundError' if via == 'main-file-missing' else None)
        if res.exception is not None and not isinstance(res.exception, rig.ScriptExhausted):
            exc = res.traceback
        calls = sum(1 for s, k, p in rec.events if k == 'prompt')
        V.bump('prompt_sessions_through_main_' + ('missing_file' if via == 'main-file-missing' else 'file'))
        if via == 'main-file-missing' and not any(k == 'err' and 'not found' in p for s, k, p in rec.events):
            V.bump('probe_missing_file_not_reported')
    for rnd in range(1 if via == 'component' else 0):
        cm = t['ConnectionManager']()
        ctl = t['Controller'](out, cm, t['matcher'].always, t['matcher'].never)
        user = rig.ScriptedUser(rec, script)
        ui = t['TerminalUI'](ctl, ctl, user)
        try:
            ui.run_until_stopped()
        except rig.ScriptExhausted:
            pass
        except Exception as e:  # noqa
            import traceback
            exc = traceback.format_exc()
        calls = sum(1 for s, k, p in rec.events if k == 'prompt')
    if exc:
        V.add('C10/exception', 'prompt:' + c18.trigger_of(exc), exc[-1200:])
    elif calls != want:
        V.add('C10/prompt-count', 'count', 'prompted %d times for script %r; expected %d (until the first resume/quit)' % (calls, script, want))
    V.bump('prompt_sessions')
    return {'violations': V.list, 'counters': V.counters, 'nt_keys': [repr(script)], 'inter_key': repr(script), 'states': [],
            'digest': rec.digest(), 'canon': rec.digest(True), 'sim_us': 0, 'evals': 1, 'sample': {'script': script}}


def execute(sc):
    if sc['config'].get('kind') == 'prompt':
        return execute_prompt(sc)
    from .. import gdbworld
    V = common.Viol()
    sim = gdbworld.GdbSim(sc)
    sim.run()
    V.counters.update(sim.counters)
    cfg = sc['config']
    if sim.start_exception:
        V.add('C10/exception', 'startup', sim.start_exception[-1500:])
    names = {ci: W.letters(k, True) for k, ci in enumerate(sim.order)}
    bstate = S.initial_state(cfg.get('break_model'), 'bang')
    fstate = S.initial_state(cfg.get('filter_model'), 'star')
    sel = S.Selection()
    selected = None
    opened = sel.opened
    events = [(h['seq_before'], 'hit', h) for h in sim.hits] + [(c['seq'], 'cmd', c) for c in sim.cmd_log]
    events.sort(key=lambda e: e[0])
    outs_by_seq = [(s, p) for s, k, p in sim.rec.events if k == 'out']
    trace = []
    n_halt = n_pass = 0
    for seq, kind, e in events:
        if kind == 'hit':
            if e['kind'] != 'message':
                # wl_connection_destroy: the program is never halted there, whatever state the session is in
                V.bump('destroy_events')
                if e['exception']:
                    V.add('C10/exception', 'destroy:' + c18.trigger_of(e['exception']), e['exception'][-1000:])
                elif e['stop']:
                    V.add('C10/stop-iff', 'halted-at-destroy', 'the wl_connection_destroy breakpoint halted the program (%s connection); '
                          'previous events: %s' % (e.get('what'), ''.join(trace[-6:])))
                trace.append('D')
                continue
            cl = e['closure']
            if e['exception']:
                V.add('C10/exception', 'stop:' + c18.trigger_of(e['exception']), 'exception left stop() at %s: %s' % (cl.brief(), e['exception'][-1000:]))
                continue
            nm = names[cl.conn]
            sel.saw(cl, nm)
            sel_ok = selected is None or selected == nm
            bv = bstate.value(cl, nm) if sel_ok else S.MUSTNOT
            outs = [p for s, p in outs_by_seq if e['seq_before'] <= s < e['seq_after']]
            stopped_lines = [p for p in outs if p.startswith(L.STOPPED_PREFIX)]
            if bv == S.DC:
                V.bump('dontcare_breakpoint')
            else:
                want = (bv == S.MUST)
                if e['stop'] != want:
                    V.add('C10/stop-iff', 'halted-nonmatch' if e['stop'] else 'ran-past-match',
                          'stop() returned %r at %s (conn %s); breakpoint %r, selection %r' % (e['stop'], cl.brief(), nm, bstate.describe(), selected))
                elif want and (len(stopped_lines) != 1 or ('.' + cl.name + '(') not in stopped_lines[0]):
                    V.add('C10/notice', 'missing', 'halted at %s but notices are %r' % (cl.brief(), stopped_lines))
                elif not want and stopped_lines:
                    V.add('C10/notice', 'spurious', 'not halted at %s but printed %r' % (cl.brief(), stopped_lines))
            if e['stop']:
                n_halt += 1
                trace.append('H')
            else:
                n_pass += 1
                trace.append('.')
        else:
            meta = e['meta'] or {}
            t = meta.get('t')
            trace.append({'resume': 'R', 'quit': 'Q', 'plain-continue': 'c'}.get(t, 'x'))
            V.bump('cmd_' + str(t))
            if e.get('plain'):
                continue
            if e.get('injected_fault'):
                # our own Ctrl-C inside the output of a command that changes nothing: the command is abandoned (the
                # KeyboardInterrupt leaving invoke() is what real gdb reports as "Quit"); the program must stay halted
                V.bump('commands_abandoned_by_injected_ctrl_c')
                if any(x.strip() in ('continue', 'quit') for x in e['executed']):
                    V.add('C10/left-halted', 'interrupted-command', 'command %r (%s), interrupted by Ctrl-C while printing, issued gdb.execute(%r): '
                          'any command other than resume / quit leaves the program halted' % (e['text'], t, e['executed']))
                continue
            if e['exception']:
                V.add('C10/exception', 'invoke:' + c18.trigger_of(e['exception']), 'exception left invoke() of %r: %s' % (e['text'], e['exception'][-1000:]))
                continue
            if e.get('unknown'):
                raise rig.HarnessError('generated a command gdb does not know: %r' % e['text'])
            did_continue = any(x.strip() == 'continue' for x in e['executed'])
            did_quit = any(x.strip() == 'quit' for x in e['executed'])
            if did_continue != (t == 'resume'):
                V.add('C10/continue-iff-resume', 'continued' if did_continue else 'stayed', 'command %r (%s): gdb.execute("continue") %s issued'
                      % (e['text'], t, 'was' if did_continue else 'was not'))
            if did_quit != (t == 'quit'):
                V.add('C10/quit-iff-quit', 'quit' if did_quit else 'no-quit', 'command %r (%s): gdb.execute("quit") %s issued'
                      % (e['text'], t, 'was' if did_quit else 'was not'))
            errors = [p for s, p in outs_by_seq if s > e['seq'] and 'Error: ' in p][:1]
            if t in ('breakpoint', 'filter') and meta.get('m') is not None and not meta.get('bad'):
                (bstate if t == 'breakpoint' else fstate).apply(meta['m'])
            elif t == 'connection':
                sel.command(meta)
                selected = sel.selected
    nontrivial = n_halt > 0 and n_pass > 0 and len(sim.cmd_log) > 0
    if n_halt:
        V.bump('messages_that_halted', n_halt)
    V.bump('messages_that_did_not_halt', n_pass)
    key = ''.join(trace)
    return {'violations': V.list, 'counters': V.counters, 'nt_keys': [key[:300]] if nontrivial else [], 'inter_key': key[:400],
            'states': [], 'digest': sim.rec.digest(), 'canon': sim.rec.digest(True), 'sim_us': sim.clock.now_us, 'evals': 1,
            'sample': {'break': cfg.get('break'), 'commands': [c['text'] for c in sim.cmd_log][:8], 'trace': key[:100]}}
