"""Simulated Wayland endpoints: the reference world (my code, independent of the tool).

A World holds several connections.  Each connection is a client/server pair sharing a ground-truth
object table.  Intents (small tuples of raw PRNG draws) are interpreted against the *current* state,
choices taken modulo what exists, so every subsequence of an intent list is again a well-formed
history.  Each applied intent yields zero or more *items*: Closure (one protocol message, ground
truth) or Chatter (a non-Wayland line the program wrote).
"""
import random

from . import protomodel

SERVER_ID_START = 0xff000000

STRING_ALPHABET = ("abcdefghijklmnopqrstuvwxyzABCDEFGHIJKLMNOPQRSTUVWXYZ0123456789"
                   "    ,,..()[]@#:=!*-_~'/+%&;?|^$")
NONASCII = ['é', 'ü', '→', '日本', '✓', 'ß', ' ']

BOUNDARY_I = [0, 1, -1, 2, 5, 255, 256, -256, 2**31 - 1, -2**31, 2**16, -2**16, 1000000, 10, 42]
BOUNDARY_U = [0, 1, 2, 5, 255, 256, 2**31 - 1, 2**31, 2**32 - 1, 2**16, 0xff000000, 1000000]
BOUNDARY_F = [0, 1, -1, 256, -256, 128, -128, 255, 257, 4174, -3200, 2**31 - 1, -2**31, 2**23, 100 * 256]


class Incarnation:
    """ground truth for one object (one incarnation of an id on a connection)"""
    __slots__ = ('conn', 'id', 'gen', 'iface', 'created_by', 't_create', 'destroyed_by',
                 't_destroy', 'alive', 'zombie', 'has_pending_delete', 'creator_is_event', 'orphan')

    def __init__(self, conn, id_, gen, iface, created_by, t_create, creator_is_event=False):
        self.conn = conn
        self.id = id_
        self.gen = gen
        self.iface = iface
        self.created_by = created_by      # per-connection message index, None for wl_display
        self.t_create = t_create
        self.destroyed_by = None          # per-connection message index
        self.t_destroy = None
        self.alive = True                 # model's notion (C03): until delete_id / server-id re-use
        self.zombie = False               # endpoint destroyed it; no further mentions are generated
        self.has_pending_delete = False
        self.creator_is_event = creator_is_event
        self.orphan = False

    def server_range(self):
        return self.id >= SERVER_ID_START

    def key(self):
        return (self.conn, self.id, self.gen)

    def label(self):
        return '%s@%d%s' % (self.iface, self.id, letters(self.gen))

    def __repr__(self):
        return 'Inc(c%d %s)' % (self.conn, self.label())


def letters(n, caps=False):
    """bijective base-26, independent implementation: 0->a, 25->z, 26->aa"""
    assert n >= 0
    base = ord('A') if caps else ord('a')
    s = ''
    n += 1
    while n > 0:
        n, r = divmod(n - 1, 26)
        s = chr(base + r) + s
    return s


def unletters(s):
    n = 0
    for c in s.lower():
        n = n * 26 + (ord(c) - ord('a') + 1)
    return n - 1


class GArg:
    """ground truth of one argument. kind in 'iufsonah'.
    i/u/h: value int; f: raw 24.8 int; s: str or None; a: bytes (or None);
    o: value Incarnation or None, iface = declared interface (may be None);
    n: value Incarnation (new), typed = declared interface present in signature"""
    __slots__ = ('kind', 'value', 'iface', 'typed', 'name', 'allow_null')

    def __init__(self, kind, value, iface=None, typed=True, name=None, allow_null=False):
        self.kind = kind
        self.value = value
        self.iface = iface
        self.typed = typed
        self.name = name
        self.allow_null = allow_null

    def brief(self):
        if self.kind in 'on':
            return [self.kind, self.value.label() if self.value is not None else None, self.iface]
        if self.kind == 'a':
            return ['a', None if self.value is None else len(self.value)]
        return [self.kind, self.value]


class Closure:
    __slots__ = ('conn', 'idx', 'gidx', 't_us', 'is_event', 'target', 'name', 'opcode', 'args',
                 'creates', 'destroys', 'implicit_destroys', 'signature', 'known_iface', 'thread')

    def __init__(self):
        self.creates = []
        self.destroys = None
        self.implicit_destroys = []
        self.thread = 0

    def mentioned(self):
        """incarnations this message is on / mentions / creates / destroys (C14 reading)"""
        s = [self.target]
        for a in self.args:
            if a.kind in 'on' and a.value is not None:
                s.append(a.value)
        if self.destroys is not None:
            s.append(self.destroys)
        return s

    def brief(self):
        return {'c': self.conn, 'i': self.idx, 't': self.t_us, 'ev': self.is_event,
                'target': self.target.label(), 'name': self.name,
                'args': [a.brief() for a in self.args]}


class Chatter:
    __slots__ = ('text', 'gidx', 't_us')

    def __init__(self, text):
        self.text = text


class ConnState:
    def __init__(self, index, side, world):
        self.index = index
        self.side = side              # 'client' or 'server': whose WAYLAND_DEBUG log this is
        self.world = world
        self.display = Incarnation(index, 1, 0, 'wl_display', None, 0)
        self.table = {1: [self.display]}
        self.client_free = []
        self.client_next = 2
        self.server_free = []
        self.server_next = SERVER_ID_START
        self.pending_delete = []
        self.msgs = []
        self.globals = []             # (name, iface, version)
        self.next_global = 1
        self.serial = 1
        self.fd = 5 + index
        self.conn_tag = str(((index + 1) << 8) | (5 + index))
        self.address = None           # gdb world

    # ---- id allocation as libwayland's wl_map does it
    def alloc_client_id(self):
        if self.client_free:
            return self.client_free.pop()
        i = self.client_next
        self.client_next += 1
        return i

    def alloc_server_id(self):
        if self.server_free:
            return self.server_free.pop()
        i = self.server_next
        self.server_next += 1
        return i

    def live(self, iface=None):
        """objects that endpoints may still mention, in deterministic (id) order"""
        out = []
        for id_ in sorted(self.table):
            inc = self.table[id_][-1]
            if inc.alive and not inc.zombie and (iface is None or inc.iface == iface):
                out.append(inc)
        return out

    def all_incarnations(self):
        for id_ in sorted(self.table):
            for inc in self.table[id_]:
                yield inc


class World:
    def __init__(self, seed, nconn, sides, repo, synth_count=3, epoch_us=0, use_synth=True):
        self.seed = seed
        self.proto = dict(protomodel.load(repo))
        self.known_names = set(self.proto)
        srng = random.Random('%d/synth' % seed)
        self.synth = protomodel.synthetic_interfaces(srng, synth_count) if use_synth else {}
        self.proto.update(self.synth)
        self.conns = [ConnState(i, sides[i % len(sides)], self) for i in range(nconn)]
        self.now = epoch_us
        self.epoch_us = epoch_us
        self.items = []
        self.gcount = 0
        # interface pool for globals: weighted to common ones, ones with new-id events, synthetic
        common = ['wl_compositor', 'wl_shm', 'wl_seat', 'xdg_wm_base', 'wl_data_device_manager',
                  'wl_subcompositor', 'wl_output', 'zwlr_layer_shell_v1', 'wl_shell']
        self.global_pool = ([n for n in common if n in self.proto] * 3 + sorted(self.synth) * 4 +
                            sorted(n for n, i in self.proto.items() if not i.ambiguous) +
                            ['unk_iface_a', 'unk_iface_b'])

    # ------------------------------------------------------------------ helpers
    def _emit(self, c, is_event, target, msg_name, opcode, args, signature, creates=(), destroys=None,
              implicit=()):
        cl = Closure()
        cl.conn = c.index
        cl.idx = len(c.msgs)
        cl.gidx = self.gcount
        self.gcount += 1
        cl.t_us = self.now
        cl.is_event = is_event
        cl.target = target
        cl.name = msg_name
        cl.opcode = opcode
        cl.args = args
        cl.signature = signature
        cl.creates = list(creates)
        cl.destroys = destroys
        cl.implicit_destroys = list(implicit)
        cl.known_iface = target.iface in self.known_names
        c.msgs.append(cl)
        self.items.append(cl)
        return cl

    def _new_object(self, c, iface, by_event, implicit):
        """allocate an id the way the creating side would and register the incarnation.
        Objects created by events get server-range ids, by requests client-range ids."""
        if by_event:
            id_ = c.alloc_server_id()
        else:
            id_ = c.alloc_client_id()
        lst = c.table.setdefault(id_, [])
        if lst and lst[-1].alive:
            # only legal for server-range ids: previous holder dies silently now
            assert id_ >= SERVER_ID_START, 'client id %d reused while alive' % id_
            prev = lst[-1]
            prev.alive = False
            prev.t_destroy = self.now
            prev.destroyed_by = len(c.msgs)
            implicit.append(prev)
        inc = Incarnation(c.index, id_, len(lst), iface, len(c.msgs), self.now, by_event)
        lst.append(inc)
        return inc

    def _gen_string(self, rng):
        r = rng.random()
        if r < 0.04:
            return ''
        if r < 0.046:
            # a long string (a clipboard offer, a title): the whole line crosses the usual buffer sizes
            n = rng.choice([4000, 4060, 4090, 4096, 5000, 8192, 20000])
            return ''.join(rng.choice(STRING_ALPHABET) for _ in range(8)) * (n // 8)
        n = rng.choice([1, 2, 3, 5, 8, 13, 30]) if rng.random() < 0.8 else rng.randint(1, 80)
        s = ''.join(rng.choice(STRING_ALPHABET) for _ in range(n))
        if rng.random() < 0.15:
            pos = rng.randint(0, len(s))
            s = s[:pos] + rng.choice(NONASCII) + s[pos:]
        if rng.random() < 0.08:
            return str(rng.choice([0, 1, 2, 5, 7, 12, 42, 256]))      # a string that reads like an integer
        if rng.random() < 0.1:
            s = rng.choice(['org.gnome.gedit', 'a, b', 'x(y)', 'wl_surface@3', 'nil', '12', 'new id a@1',
                            'fd 3', 'array', '1.5', 'a=b', '[x]', 'B: 7c', ' lead', 'trail ', ', ', '), (', 'a -> b', ' -> ', '->']) + s[:3]
        return s

    def _gen_value(self, rng, kind):
        if kind == 'i':
            return rng.choice(BOUNDARY_I) if rng.random() < 0.5 else rng.randint(-2**31, 2**31 - 1)
        if kind == 'u':
            if rng.random() < 0.5:
                return rng.choice(BOUNDARY_U)
            return rng.randint(0, 2**32 - 1) if rng.random() < 0.5 else rng.randint(0, 40)
        if kind == 'f':
            return rng.choice(BOUNDARY_F) if rng.random() < 0.5 else rng.randint(-2**31, 2**31 - 1)
        if kind == 'h':
            return rng.randint(0, 1023)
        raise AssertionError(kind)

    def _build_args(self, c, msg, rng, is_event, implicit, creates):
        """-> list[GArg] or None if the message cannot be sent in the current state"""
        args = []
        for a in msg.args:
            if a.kind in 'iufh':
                args.append(GArg(a.kind, self._gen_value(rng, a.kind), name=a.name))
            elif a.kind == 's' and msg.name in ('set_app_id', 'set_title') and rng.random() < 0.6:
                # values that matter to the tool's connection naming: letters that are also connection names,
                # dotted app ids (also ending in a dot), the empty string
                args.append(GArg('s', rng.choice(['a', 'b', 'B', 'c', 'org.gnome.gedit', 'org.foo.', 'A', '', 'all', 'b ', 'x.b']),
                                 name=a.name))
            elif a.kind == 's':
                if a.allow_null and rng.random() < 0.3:
                    args.append(GArg('s', None, name=a.name, allow_null=True))
                else:
                    args.append(GArg('s', self._gen_string(rng), name=a.name, allow_null=a.allow_null))
            elif a.kind == 'a':
                n = rng.choice([0, 4, 4, 8, 12, 16, 64]) if rng.random() < 0.8 else rng.randint(0, 64)
                args.append(GArg('a', bytes(rng.randrange(256) for _ in range(n)), name=a.name))
            elif a.kind == 'o':
                cands = c.live(a.interface) if a.interface else c.live()
                if a.allow_null and (not cands or rng.random() < 0.35):
                    args.append(GArg('o', None, iface=a.interface, name=a.name, allow_null=True))
                elif cands and is_event and c.side == 'client' and not a.allow_null and rng.random() < 0.05:
                    # a client that has already destroyed the object an event refers to: libwayland hands the event over
                    # (and prints it) with NULL in its place although the signature has no `?`
                    args.append(GArg('o', None, iface=a.interface, name=a.name, allow_null=False))
                    self.zombie_nils = getattr(self, 'zombie_nils', 0) + 1
                elif cands:
                    args.append(GArg('o', cands[rng.randrange(len(cands))], iface=a.interface, name=a.name,
                                     allow_null=a.allow_null))
                else:
                    return None
            elif a.kind == 'n':
                # defer allocation until we know the message is sendable
                args.append(GArg('n', None, iface=a.interface, typed=True, name=a.name))
        for ga in args:
            if ga.kind == 'n':
                inc = self._new_object(c, ga.iface, is_event, implicit)
                ga.value = inc
                creates.append(inc)
        return args

    # ------------------------------------------------------------------ actions
    def tick(self, us):
        self.now += us

    def chatter(self, text):
        ch = Chatter(text)
        ch.gidx = self.gcount
        self.gcount += 1
        ch.t_us = self.now
        self.items.append(ch)
        return ch

    def act(self, ci, kind, r1, r2, r3):
        """connection ci performs one action. Returns the closure or None (no-op)."""
        if not self.conns:
            return None
        c = self.conns[ci % len(self.conns)]
        rng = random.Random('%d/%d/%d/%d' % (self.seed, c.index, len(c.msgs), r3))
        fn = getattr(self, '_act_' + kind)
        return fn(c, r1, r2, rng)

    def _registries(self, c):
        return c.live('wl_registry')

    def _act_get_registry(self, c, r1, r2, rng):
        creates, implicit = [], []
        m = self.proto['wl_display'].requests[1]
        assert m.name == 'get_registry'
        args = self._build_args(c, m, rng, False, implicit, creates)
        return self._emit(c, False, c.display, 'get_registry', 1, args, m.signature(), creates, None, implicit)

    def _act_sync(self, c, r1, r2, rng):
        creates, implicit = [], []
        m = self.proto['wl_display'].requests[0]
        assert m.name == 'sync'
        args = self._build_args(c, m, rng, False, implicit, creates)
        return self._emit(c, False, c.display, 'sync', 0, args, m.signature(), creates, None, implicit)

    def _act_done(self, c, r1, r2, rng):
        """server fires a wl_callback and destroys it: done event, delete_id pending"""
        cbs = c.live('wl_callback')
        cbs = [x for x in cbs if not x.server_range()]
        if not cbs:
            return self._act_sync(c, r1, r2, rng)
        cb = cbs[r1 % len(cbs)]
        m = self.proto['wl_callback'].events[0]
        args = [GArg('u', c.serial, name=m.args[0].name)]
        c.serial += 1
        cl = self._emit(c, True, cb, 'done', 0, args, m.signature())
        cb.zombie = True
        cb.has_pending_delete = True
        c.pending_delete.append(cb)
        return cl

    def _act_delete_id(self, c, r1, r2, rng):
        if not c.pending_delete:
            return None
        inc = c.pending_delete.pop(r1 % len(c.pending_delete))
        inc.has_pending_delete = False
        inc.alive = False
        inc.t_destroy = self.now
        inc.destroyed_by = len(c.msgs)
        c.client_free.append(inc.id)
        m = [x for x in self.proto['wl_display'].events if x.name == 'delete_id'][0]
        args = [GArg('u', inc.id, name='id')]
        return self._emit(c, True, c.display, 'delete_id', m.opcode, args, m.signature(), (), inc)

    def _act_global(self, c, r1, r2, rng):
        regs = self._registries(c)
        if not regs:
            return self._act_get_registry(c, r1, r2, rng)
        reg = regs[r1 % len(regs)]
        iface = self.global_pool[r2 % len(self.global_pool)]
        ver = self.proto[iface].version if iface in self.proto else 1
        name = c.next_global
        c.next_global += 1
        c.globals.append((name, iface, ver))
        m = self.proto['wl_registry'].events[0]
        assert m.name == 'global'
        args = [GArg('u', name, name='name'), GArg('s', iface, name='interface'), GArg('u', ver, name='version')]
        return self._emit(c, True, reg, 'global', 0, args, m.signature())

    def _act_bind(self, c, r1, r2, rng):
        regs = self._registries(c)
        if not regs:
            return self._act_get_registry(c, r1, r2, rng)
        if not c.globals:
            return self._act_global(c, r1, r2, rng)
        reg = regs[r1 % len(regs)]
        name, iface, ver = c.globals[r2 % len(c.globals)]
        creates, implicit = [], []
        inc = self._new_object(c, iface, False, implicit)
        creates.append(inc)
        args = [GArg('u', name, name='name'), GArg('s', iface), GArg('u', rng.randint(1, ver)),
                GArg('n', inc, iface=None, typed=False, name='id')]
        return self._emit(c, False, reg, 'bind', 0, args, 'usun', creates, None, implicit)

    def _generic(self, c, r1, r2, rng, is_event, want_new=False, want_obj=False):
        objs = c.live()
        cands = []
        for o in objs:
            i = self.proto.get(o.iface)
            if i is None or i.ambiguous:
                continue
            ms = [m for m in i.usable(is_event) if not m.destructor]
            if want_new:
                ms = [m for m in ms if any(a.kind == 'n' for a in m.args)]
            if want_obj:
                ms = [m for m in ms if any(a.kind == 'o' for a in m.args)]
            if ms:
                cands.append((o, ms))
        if not cands:
            return None
        for attempt in range(4):
            o, ms = cands[(r1 + attempt) % len(cands)]
            m = ms[(r2 + attempt) % len(ms)]
            creates, implicit = [], []
            args = self._build_args(c, m, rng, is_event, implicit, creates)
            if args is None:
                continue
            return self._emit(c, is_event, o, m.name, m.opcode, args, m.signature(), creates, None, implicit)
        return None

    def _act_request(self, c, r1, r2, rng):
        return self._generic(c, r1, r2, rng, False)

    def _act_event(self, c, r1, r2, rng):
        return self._generic(c, r1, r2, rng, True)

    def _act_request_new(self, c, r1, r2, rng):
        return self._generic(c, r1, r2, rng, False, want_new=True) or self._act_bind(c, r1, r2, rng)

    def _act_event_new(self, c, r1, r2, rng):
        return self._generic(c, r1, r2, rng, True, want_new=True) or self._generic(c, r1, r2, rng, True)

    def _act_mention(self, c, r1, r2, rng):
        is_event = bool(r2 & 1)
        return self._generic(c, r1, r2 >> 1, rng, is_event, want_obj=True) or self._generic(c, r1, r2, rng, is_event)

    def _act_destroy(self, c, r1, r2, rng):
        """an endpoint destroys an object: destructor request when the interface has one.
        client-range: zombie until delete_id is delivered; server-range: id free for re-use at once"""
        objs = [o for o in c.live() if o.id != 1]
        if not objs:
            return None
        o = objs[r1 % len(objs)]
        return self._destroy_obj(c, o, r2, rng)

    def _destroy_obj(self, c, o, r2, rng):
        i = self.proto.get(o.iface)
        cl = None
        if i is not None and not i.ambiguous:
            ds = [m for m in i.usable(False) if m.destructor]
            if ds:
                m = ds[r2 % len(ds)]
                creates, implicit = [], []
                args = self._build_args(c, m, rng, False, implicit, creates)
                if args is not None:
                    cl = self._emit(c, False, o, m.name, m.opcode, args, m.signature(), creates, None, implicit)
        o.zombie = True
        if o.server_range():
            c.server_free.append(o.id)
        else:
            o.has_pending_delete = True
            c.pending_delete.append(o)
        return cl

    def _act_bind_synth(self, c, r1, r2, rng):
        """advertise, then bind, a synthetic interface (objects whose events create server-range ids)"""
        regs = self._registries(c)
        if not regs:
            return self._act_get_registry(c, r1, r2, rng)
        synth = sorted(self.synth)
        if not synth:
            return self._act_bind(c, r1, r2, rng)
        have = [g for g in c.globals if g[1] in self.synth]
        if not have or (r2 % 5 == 0 and len(have) < len(synth)):
            iface = synth[r2 % len(synth)]
            reg = regs[r1 % len(regs)]
            name = c.next_global
            c.next_global += 1
            ver = self.proto[iface].version
            c.globals.append((name, iface, ver))
            args = [GArg('u', name, name='name'), GArg('s', iface, name='interface'), GArg('u', ver, name='version')]
            return self._emit(c, True, reg, 'global', 0, args, 'usu')
        reg = regs[r1 % len(regs)]
        name, iface, ver = have[r2 % len(have)]
        creates, implicit = [], []
        inc = self._new_object(c, iface, False, implicit)
        creates.append(inc)
        args = [GArg('u', name, name='name'), GArg('s', iface), GArg('u', rng.randint(1, ver)),
                GArg('n', inc, iface=None, typed=False, name='id')]
        return self._emit(c, False, reg, 'bind', 0, args, 'usun', creates, None, implicit)

    def _act_destroy_server(self, c, r1, r2, rng):
        """destroy a server-range object (its id becomes free for re-use at once)"""
        objs = [o for o in c.live() if o.server_range()]
        if not objs:
            return self._act_event_new(c, r1, r2, rng)
        o = objs[r1 % len(objs)]
        return self._destroy_obj(c, o, r2, rng)

    def _act_orphan(self, c, r1, r2, rng):
        """NOT well-formed (used only by properties whose quantifier is all histories): a message on an object id that
        was never created on this connection; the tool can not resolve it"""
        iface = ['wl_surface', 'wl_buffer', 'xdg_toplevel', 'vsim_0'][r2 % 4]
        model = self.proto.get(iface)
        ms = [m for m in (model.usable(bool(r2 & 4)) if model else []) if not any(a.kind in 'on' for a in m.args)]
        if not ms:
            return None
        m = ms[r1 % len(ms)]
        inc = Incarnation(c.index, 9000 + (r2 % 4) * 100 + r1 % 40, 0, iface, None, self.now)   # one id, one interface
        inc.orphan = True
        args = self._build_args(c, m, rng, m.is_event, [], [])
        if args is None:
            return None
        return self._emit(c, m.is_event, inc, m.name, m.opcode, args, m.signature())

    def _act_orphan_clash(self, c, r1, r2, rng):
        """NOT well-formed: a message that names the id of a live object under another interface (the log started late, or two
        clients share a log): the tool can not resolve it and displays it as `unresolved type@id?` - while `id` + letters
        labels of that id exist on the connection"""
        objs = [o for o in c.live() if o is not c.display and not o.server_range() and o.iface in self.known_names
                and o.created_by is not None and c.msgs[o.created_by].name != 'bind']
        if not objs:
            return None
        o = objs[r1 % len(objs)]
        cands = [i for i in ('wl_surface', 'wl_buffer', 'xdg_toplevel', 'wl_region') if i != o.iface]
        iface = cands[r2 % len(cands)]
        model = self.proto.get(iface)
        ms = [m for m in (model.usable(bool(r2 & 4)) if model else []) if not any(a.kind in 'on' for a in m.args)]
        if not ms:
            return None
        m = ms[(r1 >> 8) % len(ms)]
        inc = Incarnation(c.index, o.id, 0, iface, None, self.now)
        inc.orphan = True
        args = self._build_args(c, m, rng, m.is_event, [], [])
        if args is None:
            return None
        return self._emit(c, m.is_event, inc, m.name, m.opcode, args, m.signature())

    def _act_orphan_future(self, c, r1, r2, rng):
        """NOT well-formed: a message on a client id that has never been used on this connection - a log that started late, or a
        stray line - while the allocator will hand that very id out later.  The tool can not resolve it; nothing is created"""
        cands = ['wl_surface', 'wl_buffer', 'xdg_toplevel', 'wl_region', 'wl_callback']
        iface = cands[r2 % len(cands)]
        model = self.proto.get(iface)
        ms = [m for m in (model.usable(bool(r2 & 8)) if model else []) if not any(a.kind in 'on' for a in m.args)]
        if not ms:
            return None
        m = ms[r1 % len(ms)]
        inc = Incarnation(c.index, c.client_next, 0, iface, None, self.now)
        inc.orphan = True
        args = self._build_args(c, m, rng, m.is_event, [], [])
        if args is None:
            return None
        return self._emit(c, m.is_event, inc, m.name, m.opcode, args, m.signature())

    def _act_dup_registry(self, c, r1, r2, rng):
        """NOT well-formed: `wl_display.get_registry(new id wl_registry@<id>)` naming a registry id that is still alive (a
        program that reconnected, or two logs glued together, without connection tags).  Ground truth creates nothing: only
        clauses that hold for every history (no two objects share a label, no exception) are judged after it"""
        regs = [o for o in self._registries(c) if not o.server_range()]
        if not regs:
            return None
        old = regs[r1 % len(regs)]
        m = self.proto['wl_display'].requests[1]
        fake = Incarnation(c.index, old.id, 0, 'wl_registry', None, self.now)
        fake.orphan = True
        a = m.args[0]
        args = [GArg('n', fake, iface='wl_registry', typed=True, name=a.name)]
        return self._emit(c, False, c.display, 'get_registry', 1, args, m.signature())

    def _act_churn(self, c, r1, r2, rng):
        """one step of a sync / done / delete_id loop: the realistic way one id gets many incarnations"""
        if c.pending_delete:
            return self._act_delete_id(c, r1, r2, rng)
        cbs = [x for x in c.live('wl_callback') if not x.server_range()]
        if cbs:
            return self._act_done(c, r1, r2, rng)
        return self._act_sync(c, r1, r2, rng)


    def _act_shm(self, c, r1, r2, rng):
        """step towards, then emit, wl_shm.format events whose argument carries an enum label (argb8888 / xrgb8888)"""
        regs = self._registries(c)
        if not regs:
            return self._act_get_registry(c, r1, r2, rng)
        shm = c.live('wl_shm')
        if not shm:
            have = [g for g in c.globals if g[1] == 'wl_shm']
            if not have:
                name = c.next_global
                c.next_global += 1
                c.globals.append((name, 'wl_shm', 1))
                args = [GArg('u', name, name='name'), GArg('s', 'wl_shm', name='interface'), GArg('u', 1, name='version')]
                return self._emit(c, True, regs[0], 'global', 0, args, 'usu')
            name, iface, ver = have[0]
            creates, implicit = [], []
            inc = self._new_object(c, 'wl_shm', False, implicit)
            creates.append(inc)
            args = [GArg('u', name, name='name'), GArg('s', 'wl_shm'), GArg('u', 1), GArg('n', inc, iface=None, typed=False, name='id')]
            return self._emit(c, False, regs[0], 'bind', 0, args, 'usun', creates, None, implicit)
        m = [x for x in self.proto['wl_shm'].events if x.name == 'format'][0]
        args = [GArg('u', [0, 1, 0x34325241, 7][r1 % 4], name='format')]
        return self._emit(c, True, shm[0], 'format', m.opcode, args, m.signature())

    APP_ID_VALUES = ['b', 'B', 'c', 'a', 'org.gnome.gedit', 'org.foo.', '', 'all', 'x.b', 'C']

    def _act_app_id(self, c, r1, r2, rng):
        """set_app_id / set_title on an object of a synthetic interface (if one is live); the value is chosen by r1 so
        that scenarios can aim at app ids that collide with connection names"""
        objs = [o for o in c.live() if o.iface in self.synth]
        if not objs:
            return self._act_bind_synth(c, r1, r2, rng)
        o = objs[(r1 // 16) % len(objs)]
        ms = [m for m in self.proto[o.iface].requests if m.name in ('set_app_id', 'set_title')]
        m = ms[r2 % len(ms)]
        args = [GArg('s', self.APP_ID_VALUES[r1 % len(self.APP_ID_VALUES)], name=m.args[0].name)] if m.args else []
        return self._emit(c, False, o, m.name, m.opcode, args, m.signature())


ACT_KINDS = ['get_registry', 'sync', 'done', 'delete_id', 'global', 'bind', 'request', 'event',
             'request_new', 'event_new', 'mention', 'destroy', 'churn', 'bind_synth', 'destroy_server', 'app_id', 'orphan', 'shm', 'orphan_clash', 'dup_registry', 'orphan_future']

CHATTER_TEMPLATES = [
    '', '   ', '\t', 'hello world', 'libEGL warning: DRI2: failed to authenticate',
    '(gedit:1234): Gtk-WARNING **: 12:00:00.000: something [deprecated]',
    'wl_surface@3 is not a message', '[destroyed object]', 'x@y.z(', '"quoted, text"',
    'error: (null) [12] {brace} <5>', '-> arrow', ' -> wl_display', '[abc.def] wl_x@1.y()',
    '[ 12.5 ] not@msg', 'Ünïcödé → text ✓', '    indented line   ', '100%', 'a.b(c)', '[1.2]',
    '[1.2] wl_display@.sync()', '[1.2] @1.sync()', '[1.2] wl_display@1.()',
    'col1\tcol2\tcol3', 'a\t\tb', 'x\ty z',
]


LONG_CHATTER = [4095, 4096, 4097, 8191, 8192, 8193, 12288, 65536, 70001, 1023, 1024, 1025]


# the program's own terminal colours in its own output: passed through as they are (C08: "that line's own text")
ESC_CHATTER = [
    '\x1b[1;31merror:\x1b[0m could not load icon theme', '\x1b[32mok', 'plain \x1b[4munderlined', '\x1b[0m',
    '\x1b[38;5;208mwarn\x1b[m: low memory', 'x \x1b[31m y \x1b[0m z \x1b[1m', '\x1b[2K\x1b[1Gprogress 50%',
]
# the front part of a message line, cut off (a crashed or interrupted writer; a string argument with a newline in it): not a
# message, so passed through as it is, at once
TORN_CHATTER = [
    '[1234567.890]  -> wl_surface@7.set_title("half a titl', '[ 100.123] xdg_toplevel@9.configure(0, 0, arr',
    '[1.500] {Default Queue} wl_x#3.y("abc', '[3.300]  -> wl_shell_surface@12.set_title("a, b (c',
    '[2.000] wl_data_offer@4278190081.offer("text/pl', '[2.000] <5> zwp_text_input_v3#8.commit_string("line one',
    '[4.125]  -> wl_display@1.sync(new id wl_callb', '[4.125] wl_keyboard@5.keymap(1, fd 7, ',
]


def chatter_text(k, r):
    if k >= 2000000:
        return TORN_CHATTER[k % len(TORN_CHATTER)]
    if k >= 1000000:
        return ESC_CHATTER[k % len(ESC_CHATTER)]
    t = CHATTER_TEMPLATES[k % len(CHATTER_TEMPLATES)]
    if r % 3 == 0 and t.strip():
        t = t + ' ' + str(r % 1000)
    if r % 41 == 5:
        # a very long line of program output, at and around the usual buffer sizes
        n = LONG_CHATTER[(r // 41) % len(LONG_CHATTER)]
        t = (t.rstrip() + ' ' + 'lorem ipsum ' * (n // 12 + 1))[:n - 1] + '.'
    return t


def apply_intents(world, intents, hook=None):
    """Interpret an intent list. hook(intent, produced_item_or_None) lets rigs see non-world intents
    (cmd, flush, ...) in order."""
    for it in intents:
        k = it[0]
        produced = None
        if k == 'tick':
            world.tick(it[1])
        elif k == 'act':
            produced = world.act(it[1], it[2], it[3], it[4], it[5])
        elif k == 'chatter':
            produced = world.chatter(chatter_text(it[1], it[2]))
        if hook is not None:
            hook(it, produced)
    return world.items
