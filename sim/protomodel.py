"""Independent reader of the shipped protocol XML (reference model, not the tool's protocol.py).

Gives, per interface: version, requests, events; per message: args (name, kind, interface,
allow_null), destructor flag.  Where an interface is described in several files the highest
version is taken; if the copies at the highest version differ in signature the interface is
marked `ambiguous` and never used by simulated endpoints (which copy the tool loads depends on
directory listing order).
"""
import os
import hashlib
import xml.etree.ElementTree as ET

KIND = {'int': 'i', 'uint': 'u', 'fixed': 'f', 'string': 's', 'object': 'o',
        'new_id': 'n', 'array': 'a', 'fd': 'h'}


class MArg:
    __slots__ = ('name', 'kind', 'interface', 'allow_null')

    def __init__(self, name, kind, interface, allow_null):
        self.name = name
        self.kind = kind
        self.interface = interface
        self.allow_null = allow_null

    def sig(self):
        return (self.name, self.kind, self.interface, self.allow_null)


class MMessage:
    __slots__ = ('name', 'is_event', 'args', 'destructor', 'since', 'opcode')

    def __init__(self, name, is_event, args, destructor, since, opcode):
        self.name = name
        self.is_event = is_event
        self.args = args
        self.destructor = destructor
        self.since = since
        self.opcode = opcode

    def sig(self):
        return (self.name, self.is_event, tuple(a.sig() for a in self.args), self.destructor)

    def signature(self):
        """libwayland signature string, e.g. '2u?on'"""
        s = ''
        if self.since > 1:
            s += str(self.since)
        for a in self.args:
            if a.allow_null:
                s += '?'
            s += a.kind
        return s


class MInterface:
    def __init__(self, name, version, requests, events, synthetic=False):
        self.name = name
        self.version = version
        self.requests = requests
        self.events = events
        self.ambiguous = False
        self.synthetic = synthetic

    def sig(self):
        return (self.name, self.version, tuple(m.sig() for m in self.requests),
                tuple(m.sig() for m in self.events))

    def tool_sig(self):
        """what the tool's own loader retains and my oracles could observe: message names, arg names,
        arg interfaces (not destructor flags, allow-null, since)"""
        return (self.name, self.version,
                tuple((m.name, m.is_event, tuple((a.name, a.kind, a.interface) for a in m.args))
                      for m in self.requests + self.events))

    def usable(self, is_event):
        """Messages endpoints may emit: names unique across requests+events (the tool keys messages by
        name only), <= 20 args, no untyped new_id (other than wl_registry.bind, handled apart)."""
        names = {}
        for m in self.requests + self.events:
            names[m.name] = names.get(m.name, 0) + 1
        out = []
        for m in (self.events if is_event else self.requests):
            if names[m.name] != 1:
                continue
            if len(m.args) > 20:
                continue
            if any(a.kind == 'n' and not a.interface for a in m.args):
                continue
            if (self.name, m.name) in (('wl_display', 'delete_id'), ('wl_registry', 'bind'),
                                       ('wl_display', 'error')):
                continue
            out.append(m)
        return out


def _parse_file(path):
    root = ET.parse(path).getroot()
    out = []
    if root.tag != 'protocol':
        return out
    for inode in root:
        if inode.tag != 'interface':
            continue
        reqs, evs = [], []
        for node in inode:
            if node.tag not in ('request', 'event'):
                continue
            args = []
            for a in node:
                if a.tag != 'arg':
                    continue
                args.append(MArg(a.attrib['name'], KIND[a.attrib['type']],
                                 a.attrib.get('interface'),
                                 a.attrib.get('allow-null', 'false') == 'true'))
            lst = evs if node.tag == 'event' else reqs
            lst.append(MMessage(node.attrib['name'], node.tag == 'event', args,
                                node.attrib.get('type') == 'destructor',
                                int(node.attrib.get('since', '1')), len(lst)))
        out.append(MInterface(inode.attrib['name'], int(inode.attrib['version']), reqs, evs))
    return out


def _find_xml(p):
    if os.path.isdir(p):
        r = []
        for i in sorted(os.listdir(p)):
            r += _find_xml(os.path.join(p, i))
        return r
    if os.path.isfile(p) and p.endswith('.xml'):
        return [p]
    return []


_cache = {}


def load(repo):
    """-> dict name -> MInterface (highest version; .ambiguous set when copies differ)"""
    if repo in _cache:
        return _cache[repo]
    copies = {}
    for f in _find_xml(os.path.join(repo, 'resources', 'protocols')):
        try:
            for i in _parse_file(f):
                copies.setdefault(i.name, []).append(i)
        except ET.ParseError:
            pass
    result = {}
    for name, lst in copies.items():
        top = max(i.version for i in lst)
        tops = [i for i in lst if i.version == top]
        chosen = min(tops, key=lambda i: hashlib.sha256(repr(i.sig()).encode()).hexdigest())
        # a lower-version copy loaded first is replaced by the top one, so only top copies matter
        if len({repr(i.tool_sig()) for i in tops}) > 1:
            chosen.ambiguous = True
        result[name] = chosen
    _cache[repo] = result
    return result


def synthetic_interfaces(rng, count):
    """Per-run interfaces unknown to the shipped XML, with random signatures over all arg kinds."""
    names = ['vsim_%d' % i for i in range(count)]
    out = {}
    for n in names:
        reqs, evs = [], []
        for lst, is_event in ((reqs, False), (evs, True)):
            for k in range(rng.randint(1, 4)):
                nargs = rng.choice([0, 1, 2, 3, 4, 5, 8, 20]) if rng.random() < 0.3 else rng.randint(0, 5)
                args = []
                for j in range(nargs):
                    kind = rng.choice('iufsonah')
                    iface = None
                    allow_null = False
                    if kind == 'o':
                        iface = rng.choice(names + [None, 'wl_surface', 'wl_callback'])
                        allow_null = rng.random() < 0.5
                    elif kind == 'n':
                        iface = rng.choice(names + ['wl_callback', 'wl_buffer'])
                    elif kind in 'sa':
                        allow_null = rng.random() < 0.3
                    args.append(MArg('a%d' % j, kind, iface, allow_null))
                lst.append(MMessage('%s%d' % ('ev' if is_event else 'rq', k), is_event, args,
                                    False, rng.choice([1, 1, 2, 3]), len(lst)))
        # guaranteed shapes: an event and a request creating objects, a message mentioning an object
        evs.append(MMessage('spawn', True, [MArg('id', 'n', rng.choice(names), False),
                                            MArg('serial', 'u', None, False)], False, 1, len(evs)))
        reqs.append(MMessage('make', False, [MArg('id', 'n', rng.choice(names), False)], False, 1, len(reqs)))
        reqs.append(MMessage('use', False, [MArg('what', 'o', rng.choice(names + [None]), True),
                                            MArg('x', 'f', None, False)], False, 1, len(reqs)))
        # the tool names connections from set_app_id / set_title / get_layer_surface on *any* interface
        reqs.append(MMessage('set_app_id', False, [MArg('app_id', 's', None, False)], False, 1, len(reqs)))
        # (the last interface is a private protocol whose set_title takes no argument at all)
        reqs.append(MMessage('set_title', False, [MArg('title', 's', None, False)] if (n != names[-1] or count < 2) else [], False, 1, len(reqs)))
        # one destructor request so ids churn
        reqs.append(MMessage('destroy', False, [], True, 1, len(reqs)))
        out[n] = MInterface(n, rng.randint(1, 4), reqs, evs, synthetic=True)
    return out
