"""C08 — no input line lost, reordered or altered; output keeps pace with input (fault enumeration
over truncation points and interrupts)."""
import random

from .. import logworld as L
from .. import world as W
from .. import rig
from . import common

ID = 'C08'
LEVEL = 'fault_enumeration'
RUN_LIMIT_S = 240     # wall guard per evaluation (harness error, never a verdict); a loaded machine must not trip it
RUNS = {'quick': 192, 'thorough': 0}
BUDGET_S = {'thorough': 600}
RULE = ('one evaluation = one execution of the real tool (main.main) over a simulated stream: the full '
        'stream, or the stream cut at one byte offset (EOF fault), or interrupted at one raw read '
        '(KeyboardInterrupt fault). quick: line boundaries + 64 random interior offsets per stream; thorough: every '
        'byte offset of small streams. distinct_nontrivial counts distinct (stream hash, fault kind, fault position) '
        'whose cut/interrupt falls strictly inside the stream (0 < position < len) or whose stream contains chatter')
REAL = ['main.main', 'frontends/tui (parse_args, Controller, TerminalUI)', 'backends/libwayland_debug_output/parse.py',
        'backends/libwayland_debug_output/runner.py (run mode)', 'core/*', 'io.BufferedReader + io.TextIOWrapper',
        'threading.Thread (run mode)']
STUBBED = ['file/stdin/pipe bytes (SimRawIO)', 'subprocess.run and os.pipe/fdopen/close as seen from runner (run mode)',
           'output streams (recording stream.Base)', 'input() (scripted user)', 'XML parse results memoised per worker']
ASSUMPTIONS = ['printer model of libwayland (sim/printer.py) is faithful', 'chatter lines are built so that they cannot '
               'match the message grammar', 'buffering of sys.stdout below stream.Std is outside the seam']
SHRINK_FIELDS = ['intents', 'cuts', 'interrupts']


def generate(seed, tier, index):
    rng = random.Random('%d/gen' % seed)
    nconn = rng.choice([1, 1, 2, 3])
    small = (tier == 'thorough' and index % 2 == 0)
    n = rng.randint(3, 14) if small else rng.randint(5, 60)
    per = [L.gen_conn_intents(seed, c, max(1, n // nconn + rng.randint(0, 3)), rng.choice(['mixed', 'churn', 'objects']))
           for c in range(nconn)]
    intents = L.interleave(rng, per, chatter_rate=rng.choice([0.0, 0.15, 0.4]))
    # chatter also before the first message and at the very end
    if rng.random() < 0.4:
        intents.insert(0, ['chatter', rng.randrange(1000), rng.randrange(1000)])
    if rng.random() < 0.4:
        intents.append(['chatter', rng.randrange(1000), rng.randrange(1000)])
    # some of the chatter carries the program's own colour sequences, some is the cut-off front part of a message line
    r2 = random.Random('%d/chatter-kinds' % seed)
    flavour = r2.choice(['', '', 'esc', 'torn', 'both'])
    if flavour:
        for it in intents:
            if it[0] == 'chatter' and r2.random() < 0.4:
                it[1] = r2.choice({'esc': [1000000], 'torn': [2000000], 'both': [1000000, 2000000]}[flavour]) + r2.randrange(1000)
    cfg = {
        'nconn': nconn,
        'sides': [rng.choice(['client', 'server']) for _ in range(nconn)],
        'dialect': L.pick_dialect(rng, nconn),
        'epoch_us': rng.choice([0, rng.randrange(1 << 32)]),
        'suppress': rng.random() < 0.5,
        'mode': rng.choice(['file', 'pipe', 'run']),
        'nonewline': rng.random() < 0.3,
        'chunks': L.gen_chunks(rng),
        'all_cuts': small,
        'cut_seed': rng.randrange(1 << 30),
    }
    if cfg['mode'] == 'run':
        # every write/read pair is a real thread hand-over; fine-grained chunking of run mode is C13's business
        cfg['chunks'] = [max(c, rng.randint(24, 300)) for c in cfg['chunks']]
        cfg['cap'] = rng.choice([64, 256, 4096, 65536])
        cfg['sched_seed'] = rng.randrange(1 << 30)
    return {'prop': ID, 'seed': seed, 'config': cfg, 'intents': intents, 'cuts': None, 'interrupts': None}


def simplifications(sc):
    cfg = sc['config']
    for k, v in (('epoch_us', 0), ('nonewline', False), ('chunks', [1 << 20]), ('mode', 'file'), ('suppress', False)):
        if cfg.get(k) != v:
            c = dict(sc)
            c['config'] = dict(cfg)
            c['config'][k] = v
            yield c


def expected_items(st, suppress):
    """per input line: None (no item) or ('msg', closure) / ('pass', text)"""
    out = []
    for text, item in st.lines:
        if isinstance(item, W.Closure):
            out.append(('msg', item))
        elif suppress:
            out.append(None)
        else:
            out.append(('pass', L.PASS_PREFIX + text.strip()))
    return out


def item_matches(o, exp, st):
    if exp[0] == 'pass':
        return o.kind == 'pass' and o.text == exp[1]
    cl = exp[1]
    side = st.world.conns[cl.conn].side
    from .. import printer as P
    if not (o.kind == 'msg' and o.iface == cl.target.iface and o.id == cl.target.id and o.name == cl.name and
            o.sent == P.is_sent(cl, side)):
        return False
    # the line is the message of *its* connection: the letter in front of it is the ordinal of the connection's first appearance
    names = getattr(st, '_c08_names', None)
    if names is None:
        from .. import oracles
        names = st._c08_names = oracles.conn_names(st)
    return o.conn == names[cl.conn]


def run_once(sc, st, data, chunks, interrupt_at=None):
    cfg = sc['config']
    paces = []
    state = {'i': 0, 'items': 0}
    rec = rig.Recorder()

    def on_read(k, pos):
        evs = rec.events
        i = state['i']
        while i < len(evs):
            if evs[i][1] == 'out':
                o = L.classify(evs[i][0], evs[i][2])
                if o.kind in ('msg', 'pass', 'other'):
                    state['items'] += 1
            i += 1
        state['i'] = i
        paces.append((k, pos, state['items']))
    res = common.run_mode(cfg, data, chunks, rec=rec, on_read=on_read, interrupt_at=interrupt_at)
    return res, paces


def check_pace(paces, data, exp, add, what):
    # number of expected items among the complete lines contained in the bytes returned by earlier reads
    nl_positions = []
    for i, b in enumerate(data):
        if b == 10:
            nl_positions.append(i)
    import bisect
    cum = [0]
    for e in exp:
        cum.append(cum[-1] + (1 if e is not None else 0))
    tail_nonempty = len(data) > 0 and data[-1] != 10
    eof_seen = False
    for k, pos, items in paces:
        complete = bisect.bisect_left(nl_positions, pos)   # newlines at offsets < pos
        want = cum[min(complete, len(exp))]
        ok = (items == want)
        if eof_seen and tail_nonempty and items == want + 1:
            ok = True   # a read issued after EOF was already delivered: the partial last line may have been shown
        if pos >= len(data):
            eof_seen = True   # this read returns 0 bytes
        if not ok:
            add('C08/pace', what, 'at raw read #%d (after %d bytes = %d complete lines) %d items were on the out '
                'stream, expected %d' % (k, pos, complete, items, want))
            return


def execute(sc):
    cfg = sc['config']
    repo = rig.REPO
    st = L.build_stream(sc, repo)
    data = st.data
    viol = []
    counters = {}
    nt_keys = []

    def add(sig, trigger, detail):
        if not any(v['sig'] == sig and v['trigger'] == trigger for v in viol):
            viol.append({'sig': sig, 'trigger': trigger, 'detail': detail})

    def bump(k, n=1):
        counters[k] = counters.get(k, 0) + n

    exp = expected_items(st, cfg['suppress'])
    stream_hash = rig.hashlib.sha256(data).hexdigest()[:12] + '/' + cfg['mode'] + str(cfg['suppress']) + str(cfg['chunks'])
    has_chatter = any(isinstance(it, W.Chatter) for _, it in st.lines)

    # ---- full run
    res, paces = run_once(sc, st, data, cfg['chunks'])
    full_out = [e for e in res.rec.events if e[1] == 'out']
    full_items = [L.classify(s, p) for s, _, p in full_out]
    digest = rig.Recorder.digest(res.rec)
    canon = res.rec.digest(canonical=True)
    bump('runs_mode_' + cfg['mode'])
    if has_chatter:
        bump('streams_with_chatter')
    if any(isinstance(it, W.Chatter) and '\x1b' in it.text for _, it in st.lines):
        bump('probe_chatter_with_own_colour_sequences')
    if any(isinstance(it, W.Chatter) and it.text in W.TORN_CHATTER for _, it in st.lines):
        bump('probe_chatter_is_cut_off_message_front')
        nt_keys.append(stream_hash + '/full')
    if cfg['nonewline']:
        bump('fault_nonewline')
    for text, it in st.lines:
        if text is not None and len(text) >= 4096:
            bump('probe_long_' + ('chatter_line' if isinstance(it, W.Chatter) else 'message_line') + '_4096_or_more')
    if res.exception is not None:
        add('C08/conservation', 'exception:' + type(res.exception).__name__, res.traceback[-1500:])
    # group items per expected line
    body = [o for o in full_items if o.kind in ('msg', 'pass', 'other')]
    want = [e for e in exp if e is not None]
    if res.exception is None:
        if len(body) != len(want):
            add('C08/conservation', 'full', '%d input lines should produce %d items, out stream has %d; first outputs: %r'
                % (len(exp), len(want), len(body), [o.text for o in body[:5]]))
        else:
            for n, (o, e) in enumerate(zip(body, want)):
                if not item_matches(o, e, st):
                    # decide between reorder / alteration / suppress leak
                    sig = 'C08/order' if any(item_matches(o2, e, st) for o2 in body) else (
                        'C08/passthrough-text' if e[0] == 'pass' else 'C08/conservation')
                    add(sig, 'full', 'item %d is %r, expected %s' % (
                        n, o.text, e[1] if e[0] == 'pass' else e[1].brief()))
                    break
        if cfg['suppress'] and any(o.kind == 'pass' for o in full_items):
            add('C08/suppress', 'full', 'passthrough shown under --supress: %r' % [o.text for o in full_items if o.kind == 'pass'][:3])
        check_pace(paces, data, exp, add, 'full')
        news = [o.notice[2] for o in full_items if o.kind == 'notice' and o.notice[0] == 'New']
        closed = [o.notice[2] for o in full_items if o.kind == 'notice' and o.notice[0] == 'Closed']
        if sorted(news) != sorted(closed):
            add('C08/unclosed-after-cut', 'full', 'New %r vs Closed %r' % (news, closed))
        # notices between items are fine; close notices must all come after the last item
        last_item = max([o.seq for o in body] or [-1])
        if any(o.kind == 'notice' and o.notice[0] == 'Closed' and o.seq < last_item for o in full_items):
            add('C08/order', 'full', 'a Closed notice precedes an item')

    # map: number of complete lines K -> list of out texts of the full run belonging to lines < K
    # (an item closes a group; notices/separators before it belong to it)
    groups = []
    cur = []
    for o in full_items:
        if o.kind == 'notice' and o.notice[0] == 'Closed':
            continue
        cur.append(o.text)
        if o.kind in ('msg', 'pass', 'other'):
            groups.append(cur)
            cur = []
    # prefix_out[K] = texts for the first K input lines
    def prefix_texts(K):
        n_items = sum(1 for e in exp[:K] if e is not None)
        t = []
        for g in groups[:n_items]:
            t.extend(g)
        return t

    evals = 1
    if not viol:
        crng = random.Random(cfg['cut_seed'])
        nl = [i for i, b in enumerate(data) if b == 10]
        if sc.get('cuts') is not None:
            cuts = list(sc['cuts'])
        elif cfg['all_cuts'] and len(data) <= 3000:
            cuts = list(range(0, len(data) + 1))
        elif cfg['all_cuts']:
            # a stream with very long lines: every byte position would be tens of thousands of full runs, so here the cuts are
            # every line boundary +-1, every multiple of the usual buffer sizes +-1, and 512 seeded positions
            marks = [m_ * k + d for m_ in (1024, 4096, 8192, 65536) for k in range(1, len(data) // m_ + 1) for d in (-1, 0, 1)]
            cuts = sorted(set([0, len(data)] + [i + 1 for i in nl] + [i for i in nl] + [x for x in marks if 0 <= x <= len(data)] +
                              [crng.randrange(len(data) + 1) for _ in range(512)]))
            bump('probe_long_stream_cuts_sampled')
        else:
            cuts = sorted(set([0, len(data)] + [i + 1 for i in nl] + [i for i in nl] +
                              [crng.randrange(len(data) + 1) for _ in range(64)]))
        nreads = len(paces)
        if sc.get('interrupts') is not None:
            ints = list(sc['interrupts'])
        elif cfg['all_cuts'] and len(data) <= 3000:
            ints = list(range(nreads))
        else:
            ints = sorted(set(crng.randrange(nreads) for _ in range(24)) | {0, nreads - 1})
        if sc.get('cuts') is None and sc.get('interrupts') is None:
            # bound the work of one evaluation: every cut / interrupt is a full run of nreads raw reads
            room = max(48, 1500000 // max(1, nreads))
            if len(cuts) + len(ints) > room:
                keep_c = max(32, room * 2 // 3)
                keep_i = max(16, room - keep_c)
                must = {0, len(data)} | {x for x in cuts if any(abs(x - m_) <= 1 for m_ in (4096, 8192, 65536))}
                rest = [x for x in cuts if x not in must]
                crng.shuffle(rest)
                cuts = sorted(must | set(rest[:max(0, keep_c - len(must))]))
                if len(ints) > keep_i:
                    pool = [x for x in ints if x not in (0, nreads - 1)]
                    crng.shuffle(pool)
                    ints = sorted(set(pool[:keep_i]) | {0, nreads - 1})
                bump('probe_cuts_subsampled_for_work_bound')
        for b in cuts:
            if b > len(data):
                continue
            evals += 1
            part = data[:b]
            r2, p2 = run_once(sc, st, part, cfg['chunks'])
            bump('fault_truncate')
            inside = 0 < b < len(data)
            if inside and (b not in nl) and (b - 1 not in nl):
                bump('fault_truncate_midline')
            if inside:
                nt_keys.append('%s/cut/%d' % (stream_hash, b))
            judge_cut(sc, st, part, r2, p2, exp, prefix_texts, add, 'truncate', b, bump)
            if viol:
                sc_cut = b
                viol[-1]['detail'] += ' [cut at byte %d of %d]' % (b, len(data))
                break
        if not viol and cfg['mode'] != 'run':
            # (an interrupt in run mode also kills the child; that interplay is not part of the statement)
            for r in ints:
                evals += 1
                r2, p2 = run_once(sc, st, data, cfg['chunks'], interrupt_at=r)
                bump('fault_interrupt')
                if 0 < r < nreads - 1:
                    nt_keys.append('%s/int/%d' % (stream_hash, r))
                # bytes delivered before the interrupted read
                pos = p2[-1][1] if p2 else 0
                # if an earlier read already returned EOF the partial last line was legitimately processed
                eof_before = any(p[1] >= len(data) for p in p2[:-1])
                judge_cut(sc, st, data[:pos], r2, p2, exp, prefix_texts, add, 'interrupt', r, bump,
                          interrupted=not eof_before)
                if viol:
                    viol[-1]['detail'] += ' [KeyboardInterrupt at raw read %d]' % r
                    break
    sim_us = st.world.now - st.world.epoch_us
    sample = {'mode': cfg['mode'], 'dialect': cfg['dialect'], 'suppress': cfg['suppress'], 'chunks': cfg['chunks'],
              'first_lines': [t for t, _ in st.lines[:4]], 'bytes': len(data), 'evaluations': evals}
    return {'violations': viol, 'counters': counters, 'nt_keys': nt_keys, 'inter_key': stream_hash,
            'states': [], 'digest': digest, 'canon': canon, 'sim_us': sim_us, 'evals': evals, 'sample': sample}


def judge_cut(sc, st, part, res, paces, exp, prefix_texts, add, kind, where, bump, interrupted=False):
    cfg = sc['config']
    if res.exception is not None:
        add('C08/unclosed-after-cut', kind + ':exception:' + type(res.exception).__name__, res.traceback[-1200:])
        return
    outs = [p for s, k, p in res.rec.events if k == 'out']
    items = [L.classify(0, p) for p in outs]
    K = part.count(b'\n')
    want = prefix_texts(K)
    got_non_closed = [o for o in items if not (o.kind == 'notice' and o.notice[0] == 'Closed')]
    got = [o.text for o in got_non_closed]
    if got[:len(want)] != want:
        n = 0
        while n < min(len(got), len(want)) and got[n] == want[n]:
            n += 1
        add('C08/prefix', kind, 'output is not a prefix of the full output: at output #%d got %r, full run has %r'
            % (n, got[n] if n < len(got) else None, want[n] if n < len(want) else None))
        return
    extra = got_non_closed[len(want):]
    tail = part[part.rfind(b'\n') + 1:] if b'\n' in part else part
    partial_allowed = (len(tail) > 0) and not interrupted
    n_items = sum(1 for o in extra if o.kind in ('msg', 'pass', 'other'))
    if partial_allowed:
        bump('partial_last_line')
    if n_items > (1 if partial_allowed else 0) or (extra and not partial_allowed):
        add('C08/prefix', kind, 'unexpected output after the prefix: %r' % [o.text for o in extra][:4])
        return
    if extra and extra[-1].kind not in ('msg', 'pass', 'other'):
        # a New notice / separator without an item behind it
        add('C08/prefix', kind, 'dangling output after the prefix: %r' % [o.text for o in extra][:4])
        return
    # nothing but Closed notices after the last non-closed output
    seen_closed = False
    for o in items:
        if o.kind == 'notice' and o.notice[0] == 'Closed':
            seen_closed = True
        elif seen_closed:
            add('C08/prefix', kind, 'output after a Closed notice: %r' % o.text)
            return
    news = sorted(o.notice[2] for o in items if o.kind == 'notice' and o.notice[0] == 'New')
    closed = sorted(o.notice[2] for o in items if o.kind == 'notice' and o.notice[0] == 'Closed')
    if news != closed:
        add('C08/unclosed-after-cut', kind, 'New %r vs Closed %r' % (news, closed))
        return
    check_pace(paces, part, exp, add, kind)
