"""Model of libwayland's wl_closure_print (reference, my code) — DESIGN.md appendix A."""

PRESETS = {
    'v1.18': dict(time='f', mark='.', queue=False, conn=False, sep='@', fixed='f', array='plain'),
    'v1.18,': dict(time='f', mark=',', queue=False, conn=False, sep='@', fixed='f', array='plain'),
    'v1.21': dict(time='u', mark='.', queue=False, conn=False, sep='@', fixed='d', array='sized'),
    'v1.23': dict(time='u', mark='.', queue=True, conn=False, sep='#', fixed='d', array='sized'),
    'v1.23+conn': dict(time='u', mark='.', queue=True, conn=True, sep='#', fixed='d', array='sized'),
    'v1.22+conn': dict(time='u', mark='.', queue=False, conn=True, sep='#', fixed='d', array='sized'),
    'v1.18+conn': dict(time='f', mark='.', queue=False, conn=True, sep='@', fixed='f', array='plain'),
}
PRESET_NAMES = sorted(PRESETS)

QUEUE_NAMES = ['Default Queue', 'Display Queue', 'mesa egl display queue', 'my queue']


def fmt_time(t_us, d):
    if d['time'] == 'f':
        s = '[%10.3f] ' % (t_us / 1000.0)
        if d.get('time_spelling') == 'long':
            s = s[:-2] + '000] '                # the same number of milliseconds written with six decimals
        elif d.get('time_spelling') == 'short' and s.endswith('0] '):
            s = s[:-2].rstrip('0') + '0] ' if s[:-2].rstrip('0').endswith('.') else s[:-2].rstrip('0') + '] '   # trailing zeros dropped
        if d['mark'] == ',':
            s = s.replace('.', ',')
        return s
    return '[%7u.%03u] ' % (t_us // 1000, t_us % 1000)


def fmt_fixed(raw, d):
    if d['fixed'] == 'f':
        s = '%f' % (raw / 256.0)
        if d['mark'] == ',':
            s = s.replace('.', ',')
        return s
    sign = '-' if raw < 0 else ''
    a = abs(raw)
    return '%s%d.%08d' % (sign, a // 256, 390625 * (a % 256))


def fmt_arg(a, d):
    sep = d['sep']
    k = a.kind
    if k == 'i':
        return '%d' % a.value
    if k == 'u':
        return '%u' % a.value
    if k == 'h':
        return 'fd %d' % a.value
    if k == 'f':
        return fmt_fixed(a.value, d)
    if k == 's':
        return 'nil' if a.value is None else '"%s"' % a.value
    if k == 'o':
        if a.value is None:
            return 'nil'
        return '%s%s%d' % (a.value.iface, sep, a.value.id)
    if k == 'n':
        return 'new id %s%s%d' % (a.iface if a.typed and a.iface else '[unknown]', sep, a.value.id)
    if k == 'a':
        if d['array'] == 'plain':
            return 'array'
        return 'array[%d]' % (0 if a.value is None else len(a.value))
    raise AssertionError(k)


def is_sent(cl, side):
    """client-side log: requests are sent; server-side log: events are sent"""
    return (not cl.is_event) if side == 'client' else cl.is_event


def render(cl, d, side, conn_tag=None, queue_name=None):
    s = fmt_time(cl.t_us, d)
    if d['queue'] and queue_name:
        s += '{%s} ' % queue_name
    if d['conn']:
        s += '<%s> ' % conn_tag
    s += ' -> ' if is_sent(cl, side) else ''
    s += '%s%s%d.%s(' % (cl.target.iface, d['sep'], cl.target.id, cl.name)
    s += ', '.join(fmt_arg(a, d) for a in cl.args)
    s += ')'
    return s
