"""C13 — file, pipe and run modes show the same thing; run mode is transparent (thread + pipe schedules)."""
import random
import threading

from .. import logworld as L
from .. import world as W
from .. import rig
from .. import runshim
from . import common

ID = 'C13'
LEVEL = 'exploration'
RUNS = {'quick': 2400}
BUDGET_S = {'thorough': 600}
RULE = ('one evaluation = one byte stream (simulated endpoints + program chatter, with/without final newline) played through '
        '(a) -l FILE, (b) -p stdin, (c) -r PROG ARGS where subprocess.run is a simulated child writing the stream to a simulated '
        'pipe; the helper thread is the real threading.Thread of run_program, parked and released by baton passing at each sync '
        'point (child write / child exit / close of the write end / reader raw read) as the seeded scheduler decides; pipe '
        'capacity 16 B..64 KiB (back-pressure), write sizes 1 B..whole stream, exit status 0..255, ARGS containing '
        'wayland-debug\'s own option spellings. Non-trivial = the run-mode schedule alternated between child and reader at least '
        'twice and the stream has >= 2 lines; distinct = hash of the baton hand-over trace + stream')
REAL = ['main.main', 'backends/libwayland_debug_output/runner.py (run_program, _Subprocess.run)', 'threading.Thread',
        'Parser/Controller/core', 'io.BufferedReader + io.TextIOWrapper']
STUBBED = ['subprocess.run (simulated child)', 'os.pipe / os.fdopen / os.close / os.environ as seen from runner (simulated pipe)',
           'file and stdin bytes', 'output streams', 'input()']
ASSUMPTIONS = ['EOF is delivered only when every holder of the write end has closed it, as the kernel does',
               'the only real-time element left is thread.join(timeout=1); the helper needs microseconds after its last sync point',
               'LD_LIBRARY_PATH may be prepended to (documented behaviour of --libwayland); every other inherited variable must be untouched']
SHRINK_FIELDS = ['intents']
RUN_LIMIT_S = 120

OPTIONISH = ['-f', 'wl_surface', '--supress', '-l', 'x.log', '-r', '--run', '-g', '--gdb', '-p', '-C', '--color', 'a b',
             '"quoted"', "it's", '-Cr', '--', '', '-b', '*', '--libwayland', '/tmp', 'arg with  two spaces', '\\back\\slash', '$HOME']


def generate(seed, tier, index):
    rng = random.Random('%d/gen' % seed)
    if tier == 'thorough' and index % 16 == 9:
        # bonus (the claim stays sampling): ALL child/reader schedules of a tiny run-mode case
        nconn = 1
        per = [L.gen_conn_intents(seed, 0, rng.randint(1, 3), 'mixed')]
        intents = L.interleave(rng, per, chatter_rate=0.3)
        cfg = {'kind': 'exhaustive', 'nconn': 1, 'sides': [rng.choice(['client', 'server'])], 'dialect': L.pick_dialect(rng, 1),
               'epoch_us': 0, 'suppress': False, 'nonewline': rng.random() < 0.3, 'chunks': [1 << 20],
               'writes': [rng.choice([20, 40, 70, 1 << 20])], 'cap': rng.choice([16, 64, 65536]), 'status': rng.randrange(256),
               'sched_seed': 0, 'prog': ['prog'], 'environ': dict(common.BASE_ENV)}
        return {'prop': ID, 'seed': seed, 'config': cfg, 'intents': intents}
    nconn = rng.choice([1, 1, 2, 3])
    n = rng.randint(1, 40)
    per = [L.gen_conn_intents(seed, c, max(1, n // nconn), rng.choice(['mixed', 'churn', 'objects'])) for c in range(nconn)]
    intents = L.interleave(rng, per, chatter_rate=rng.choice([0.0, 0.2, 0.5]))
    if rng.random() < 0.1:
        intents = [it for it in intents if it[0] == 'chatter'][:3]     # a program that prints no Wayland messages at all
    fine = rng.random() < 0.3
    cfg = {
        'nconn': nconn, 'sides': [rng.choice(['client', 'server']) for _ in range(nconn)],
        'dialect': L.pick_dialect(rng, nconn), 'epoch_us': rng.choice([0, rng.randrange(1 << 32)]),
        'suppress': rng.random() < 0.3, 'nonewline': rng.random() < 0.3,
        'chunks': L.gen_chunks(rng),
        'writes': [1] if (fine and n <= 12) else [rng.choice([1, 2, 3, 7, 16, 40, 100, 1000, 1 << 20]) for _ in range(rng.randint(1, 6))],
        'cap': rng.choice([16, 16, 64, 256, 4096, 65536]),
        'status': rng.choice([0, 0, 1, 2, 99, 127, 255, rng.randrange(256)]),
        'sched_seed': rng.randrange(1 << 30),
        'prog': ['prog'] + [rng.choice(OPTIONISH) for _ in range(rng.randint(0, 5))],
        'run_spelling': rng.choice(['-r', '-r', '--run', 'cluster', 'cluster']),
        'libwayland': rng.choice([None, None, None, '/tmp']),       # an option of a neighbouring feature: the rest must not notice
        'environ': dict(common.BASE_ENV, **rng.choice([{}, {'WAYLAND_DEBUG': '0'}, {'WAYLAND_DEBUG': 'client'},
                                                       {'LD_LIBRARY_PATH': '/opt/lib'}, {'FOO': 'bar baz', 'EMPTY': ''}])),
    }
    if rng.random() < 0.2:
        # -f / -b given on the command line: same display in all modes (pipe mode only adds its warning about -b)
        cfg['filter'] = rng.choice([None, 'wl_display', '.sync, .delete_id', 'wl_* ! .global', '2', '*'])
        cfg['break'] = rng.choice([None, '.get_registry', 'wl_callback', '!', '3a'])
    if rng.random() < 0.2:
        # programs write arbitrary bytes to stderr: a few undecodable ones must still display the same in all three modes
        from .. import faults as F
        cfg['byte_faults'] = F.gen_faults(rng, rng.randint(1, 3), ['badutf8', 'badutf8', 'flip', 'nul', 'cr', 'cr', 'bom'])
    if tier == 'thorough' and index < 8:
        cfg['calibrate_real_child'] = True       # stub fidelity: the same stream through a real `main.py -r` with a real child
        cfg['prog'] = ['prog']
    return {'prop': ID, 'seed': seed, 'config': cfg, 'intents': intents}


CHILD = '''
import sys, time, os
data = sys.stdin.buffer.read() if False else bytes.fromhex(sys.argv[1])
sizes = [int(x) for x in sys.argv[2].split(',')]
pos = 0
k = 0
sys.stdout.write('child stdout is untouched\\n'); sys.stdout.flush()
while pos < len(data):
    n = sizes[k % len(sizes)]; k += 1
    os.write(2, data[pos:pos + n]); pos += n
    time.sleep(0.002)
sys.exit(int(sys.argv[3]))
'''


def calibrate_real_child(cfg, data, sim_res):
    """run the real program with a real child process and pipe; the simulated run must have shown the same"""
    import subprocess
    import os
    sizes = ','.join(str(max(1, min(w, 4096))) for w in cfg['writes'])
    opts = []
    if cfg.get('filter') is not None:
        opts += ['-f', cfg['filter']]
    if cfg.get('break') is not None:
        opts += ['-b', cfg['break']]
    argv = ['/venv/bin/python', os.path.join(rig.REPO, 'main.py'), '-C'] + (['--supress'] if cfg['suppress'] else []) + opts + [
        '-r', '/venv/bin/python', '-c', CHILD, data.hex(), sizes, str(cfg['status'])]
    r = subprocess.run(argv, input=b'quit\n', capture_output=True, timeout=120,
                       env=dict(os.environ, PYTHONDONTWRITEBYTECODE='1', PYTHONIOENCODING='utf-8'))
    real_out = r.stdout.decode('utf-8', 'replace').replace('wl debug $ ', '')
    real_out_lines = [l for l in real_out.split('\n') if l != 'child stdout is untouched']
    if real_out_lines and real_out_lines[-1] == '':
        real_out_lines.pop()
    sim_out = [p for s, k, p in sim_res.rec.events if k == 'out']
    sim_out_lines = '\n'.join(sim_out).split('\n') if sim_out else []
    real_err = [l for l in r.stderr.decode('utf-8', 'replace').split('\n') if l and not l.startswith(('WARNING:', 'ERROR:', 'INFO:'))]
    sim_err = [p for s, k, p in sim_res.rec.events if k == 'err']
    sim_err_lines = '\n'.join(sim_err).split('\n') if sim_err else []
    problems = []

    def canon(lines):
        out, run = [], []
        for l in lines + [None]:
            if l is not None and l.startswith('Closed '):
                run.append(l)
            else:
                out += sorted(run)
                run = []
                if l is not None:
                    out.append(l)
        return out
    real_out_lines, sim_out_lines = canon(real_out_lines), canon(sim_out_lines)
    if real_out_lines != sim_out_lines:
        problems.append('stdout differs (index, real, simulated): %r' % (first_diff(real_out_lines, sim_out_lines),))
    if real_err != sim_err_lines:
        problems.append('stderr differs (index, real, simulated): %r' % (first_diff(real_err, sim_err_lines),))
    if r.returncode != cfg['status']:
        problems.append('real exit status %r, expected %r' % (r.returncode, cfg['status']))
    if 'child stdout is untouched' not in r.stdout.decode('utf-8', 'replace'):
        problems.append('child stdout did not reach our stdout')
    return problems


def simplifications(sc):
    cfg = sc['config']
    for k, v in (('epoch_us', 0), ('nonewline', False), ('chunks', [1 << 20]), ('writes', [1 << 20]), ('cap', 65536),
                 ('status', 0), ('prog', ['prog']), ('suppress', False), ('byte_faults', None)):
        if cfg.get(k) != v:
            c = dict(sc)
            c['config'] = dict(cfg)
            c['config'][k] = v
            yield c


def display(rec):
    return [(k, p) for s, k, p in rec.events if k in ('out', 'err')
            and not (k == 'err' and 'Ignoring stop matcher when stdin is used' in p)]


def execute_exhaustive(sc):
    """depth-first walk over every sequence of two-way baton decisions (child or reader next?)"""
    stack = [[]]
    total = None
    n = 0
    seen = set()
    while stack and n < 4000:
        prefix = stack.pop()
        one = {'prop': ID, 'seed': sc['seed'], 'config': dict(sc['config'], kind='one', baton_script=list(prefix)), 'intents': sc['intents']}
        r = execute(one)
        n += 1
        decisions = r.pop('decisions', [])
        for i in range(len(prefix), len(decisions)):
            if decisions[i][0] > 1:
                alt = [d[1] for d in decisions[:i]] + [1 - decisions[i][1]]
                if tuple(alt) not in seen:
                    seen.add(tuple(alt))
                    stack.append(alt)
        if total is None:
            total = r
        else:
            total['evals'] += r['evals']
            total['nt_keys'] += r['nt_keys']
            for k, v in r['counters'].items():
                total['counters'][k] = total['counters'].get(k, 0) + v
        if r['violations']:
            total['violations'] = r['violations']
            for v in total['violations']:
                v['detail'] += ' [schedule %s of the exhaustive walk]' % ''.join(str(d[1]) for d in decisions)
            break
    total['counters']['exhaustive_schedule_walks'] = 1
    total['counters']['exhaustive_schedules'] = n
    total['sample'] = {'config': {k: v for k, v in sc['config'].items() if k != 'environ'}, 'schedules_walked': n}
    return total


def execute(sc):
    cfg = sc['config']
    if cfg.get('kind') == 'exhaustive':
        return execute_exhaustive(sc)
    V = common.Viol()
    st = L.build_stream(sc, rig.REPO)
    data = st.data
    if cfg.get('byte_faults'):
        from .. import faults as F
        data = F.apply_byte_faults(data, cfg['byte_faults'], V.counters)
    thread_errors = []
    old_hook = threading.excepthook
    threading.excepthook = lambda a: thread_errors.append((a.exc_type.__name__, str(a.exc_value)))
    try:
        ra = common.run_mode(dict(cfg, mode='file'), data, cfg['chunks'])
        rb = common.run_mode(dict(cfg, mode='pipe'), data, cfg['chunks'])
        shims = []
        deadlock = None
        try:
            rc = common.run_mode(dict(cfg, mode='run'), data, cfg['chunks'], shim_out=shims)
        except rig.SimDeadlock as e:
            deadlock = str(e)
            rc = None
        shim = shims[0] if shims else None
        # let a straggling helper thread finish (it is past its last sync point or dead-locked and released)
        for t in threading.enumerate():
            if t.name == 'subprocess' and t is not threading.current_thread():
                t.join(timeout=2)
    finally:
        threading.excepthook = old_hook
    da, db = display(ra.rec), display(rb.rec)
    if ra.exception is not None or rb.exception is not None:
        V.add('C13/display', 'exception', (ra.traceback or rb.traceback)[-1200:])
    elif da != db:
        V.add('C13/display', 'file-vs-pipe', 'file and pipe mode differ: %r' % (first_diff(da, db),))
    elif not cfg.get('byte_faults') and cfg.get('filter') is None:
        # "all of its output is processed": the display must account for every line of the stream (a loss that is the
        # same in all three modes would escape the comparison between modes)
        from . import c08
        exp = [e for e in c08.expected_items(st, cfg['suppress']) if e is not None]
        body = [o for o in (L.classify(0, p) for k, p in da if k == 'out') if o.kind in ('msg', 'pass', 'other') and not o.text.startswith(L.STOPPED_PREFIX)]
        if len(body) != len(exp) or any(not c08.item_matches(o, e, st) for o, e in zip(body, exp)):
            V.add('C13/unprocessed-output', 'conservation', '%d lines of program output should give %d items, the display has %d' % (len(st.lines), len(exp), len(body)))
    trace = ''
    if deadlock is not None:
        V.add('C13/deadlock', 'run', 'run mode dead-locked (not all output processed): ' + deadlock)
    elif rc is not None:
        trace = ''.join(shim.baton.trace)
        if rc.exception is not None:
            V.add('C13/display', 'run-exception:' + type(rc.exception).__name__, rc.traceback[-1200:])
        else:
            dc = display(rc.rec)
            if dc != da:
                V.add('C13/display', 'file-vs-run', 'file and run mode differ: %r' % (first_diff(da, dc),))
            if len(shim.calls) != 1:
                V.add('C13/argv', 'spawn-count', 'program started %d times' % len(shim.calls))
            else:
                args, kw = shim.calls[0]
                if args != cfg['prog']:
                    V.add('C13/argv', 'verbatim', 'program started with %r, command line had %r' % (args, cfg['prog']))
                env = kw.get('env')
                if env is None:
                    env = shim.environ
                if env.get('WAYLAND_DEBUG') != '1':
                    V.add('C13/env', 'WAYLAND_DEBUG', 'WAYLAND_DEBUG=%r in the program\'s environment' % env.get('WAYLAND_DEBUG'))
                for k, v in cfg['environ'].items():
                    if k in ('WAYLAND_DEBUG', 'LD_LIBRARY_PATH'):
                        continue
                    if env.get(k) != v:
                        V.add('C13/env', 'inherited', 'inherited variable %s=%r became %r' % (k, v, env.get(k)))
                if 'LD_LIBRARY_PATH' in cfg['environ'] and cfg['environ']['LD_LIBRARY_PATH'] not in (env.get('LD_LIBRARY_PATH') or '').split(':'):
                    V.add('C13/env', 'LD_LIBRARY_PATH', 'LD_LIBRARY_PATH lost its inherited entry: %r' % env.get('LD_LIBRARY_PATH'))
                if kw.get('stdout') is not None:
                    V.add('C13/stdout', 'redirected', 'stdout of the program redirected: %r' % (kw.get('stdout'),))
                if kw.get('stderr') != runshim.W_FD:
                    V.add('C13/stdout', 'stderr', 'stderr of the program is %r, not the pipe' % (kw.get('stderr'),))
                if kw.get('stdin') is not None:
                    V.add('C13/stdout', 'stdin', 'stdin of the program redirected')
            # everything written was consumed before the prompt / exit
            first_prompt = min([s for s, k, p in rc.rec.events if k in ('prompt', 'exit')] or [1 << 60])
            consumed = sum(p for s, k, p in rc.rec.events if k == 'read' and s < first_prompt)
            if shim.pipe.written != len(data) or consumed != len(data):
                V.add('C13/unprocessed-output', 'bytes', 'child wrote %d of %d bytes, %d consumed before the prompt' % (shim.pipe.written, len(data), consumed))
            if rc.exit_code != cfg['status']:
                V.add('C13/exit-status', 'status', 'exit status %r, program exited with %d' % (rc.exit_code, cfg['status']))
            if thread_errors:
                V.add('C13/display', 'thread-exception', repr(thread_errors[:2]))
    if cfg.get('calibrate_real_child') and rc is not None and rc.exception is None and not V.list:
        problems = calibrate_real_child(cfg, data, rc)
        V.bump('calibration_real_child_sessions')
        if problems:
            raise rig.HarnessError('run-mode stub disagrees with a real child process: ' + '; '.join(problems))
    if cfg['cap'] <= 64:
        V.bump('fault_backpressure_small_pipe')
    if trace.startswith('c' * 3) and 'r' not in trace[:trace.rfind('c')]:
        V.bump('probe_child_exited_before_first_read')
    alternations = sum(1 for a, b in zip(trace, trace[1:]) if a != b)
    V.bump('baton_handovers', len(trace))
    if cfg['nonewline']:
        V.bump('fault_nonewline')
    if any(p in OPTIONISH[:12] for p in cfg['prog'][1:]):
        V.bump('probe_optionish_forwarded_word')
    nontrivial = alternations >= 2 and len(st.lines) >= 2
    key = trace[:300] + rig.hashlib.sha256(data).hexdigest()[:12]
    digest = ra.rec.digest() + rb.rec.digest() + (rc.rec.digest() if rc is not None else 'deadlock')
    canon = ra.rec.digest(True) + rb.rec.digest(True) + (rc.rec.digest(True) if rc is not None else 'deadlock')
    return {'violations': V.list, 'counters': V.counters, 'nt_keys': [key] if nontrivial else [], 'inter_key': trace[:400],
            'decisions': list(shim.baton.decisions) if shim is not None else [],
            'states': [], 'digest': digest, 'canon': canon, 'sim_us': st.world.now - st.world.epoch_us, 'evals': 3,
            'sample': {'prog': cfg['prog'], 'writes': cfg['writes'], 'cap': cfg['cap'], 'status': cfg['status'],
                       'baton_trace': trace[:80], 'bytes': len(data)}}


def first_diff(a, b):
    for i, (x, y) in enumerate(zip(a, b)):
        if x != y:
            return (i, x, y)
    return (min(len(a), len(b)), a[len(b):len(b) + 1], b[len(a):len(a) + 1])
