"""helpers shared by the log-world properties"""
from .. import rig
from .. import runshim

BASE_ENV = {'HOME': '/home/sim', 'PATH': '/usr/bin:/bin', 'LANG': 'C.UTF-8', 'WAYLAND_DISPLAY': 'wayland-0'}


def argv_for(cfg, extra=()):
    argv = ['main.py', '--color' if cfg.get('color') else '-C']
    if cfg.get('suppress'):
        argv.append('--supress')
    if cfg.get('filter') is not None:
        argv += ['-f', cfg['filter']]
    if cfg.get('break') is not None:
        argv += ['-b', cfg['break']]
    argv += list(extra)
    mode = cfg['mode']
    if mode == 'file':
        argv += ['-l', 'sim.log']
    elif mode == 'pipe':
        argv += ['-p']
    elif mode == 'run':
        argv += ['-r'] + list(cfg.get('prog') or ['prog'])
    else:
        raise AssertionError(mode)
    return argv


def run_mode(cfg, data, chunks, rec=None, on_read=None, interrupt_at=None, script=('quit',), stdin_errors='strict',
             capture=False, shim_out=None):
    """run main.main in the configured input mode over the simulated bytes"""
    argv = argv_for(cfg)
    rec = rec or rig.Recorder()
    if cfg['mode'] == 'run':
        shim = runshim.RunShim(data, cfg.get('writes') or chunks, cfg.get('cap', 65536), cfg.get('status', 0),
                               cfg.get('sched_seed', 0), cfg.get('environ') or BASE_ENV, rec, on_read=on_read)
        if shim_out is not None:
            shim_out.append(shim)
        res = rig.run_main(argv, b'', [1], script=script, rec=rec, run_shim=shim, capture=capture)
        res.shim = shim
        return res
    return rig.run_main(argv, data, chunks, script=script, on_read=on_read, interrupt_at=interrupt_at,
                        stdin_errors=stdin_errors, rec=rec, capture=capture)
