"""C18 — no input makes the tool fail with an unhandled error (fault injection proper)."""
import random
import threading

from .. import logworld as L
from .. import world as W
from .. import refmatch as R
from .. import session as S
from .. import faults as F
from .. import oracles
from .. import rig
from . import common
from . import c06

ID = 'C18'
LEVEL = 'exploration'
RUNS = {'quick': 3600}
BUDGET_S = {'thorough': 600}
TIMEOUT_IS_VIOLATION = True
RUN_LIMIT_S = 150
RULE = ('three workloads, by run index mod 3. log: a well-formed simulated stream is mutated by 1-20 transport faults '
        '(drop, dup, swap, tear, 64 KiB line, 5000-digit number, id 0, hostile look-alike lines, bit flips, inserted/deleted '
        'bytes, invalid UTF-8, NUL, truncation) and fed to main.main in file, pipe (strict and surrogateescape stdin) and run '
        'mode; the run must end normally, read the stream to EOF, close every connection it opened, within a wall budget. '
        'matcher: strings over the matcher alphabet, mutations of valid matchers and arbitrary Unicode go through matcher.parse, '
        'the filter/list/breakpoint/matcher commands and -f/-b; rejection must be a diagnostic, an accepted matcher must print and '
        'evaluate on every recorded message of a faulty session. command: printable lines typed at arbitrary points of a session. '
        'Non-trivial = at least one fault fired / the text is not a valid matcher or command; distinct = hash of the mutated input')
REAL = ['main.main, parse_args, Parser, Controller, core.matcher, runner, io text stack']
STUBBED = ['log bytes, child process and pipe, output streams, input()']
ASSUMPTIONS = ['the tool printing a traceback on its *own* output stream and carrying on (parse_all\'s catch-all) is not an abort; '
               'EOF at the prompt and a missing program are outside the property']
SHRINK_FIELDS = ['faults', 'intents', 'texts']

MATCHER_ALPHABET = 'abwl_xdg0123456789*.,!:()[]="@# ~-\t'
UNICODE_BITS = ['é', '→', '日本', '​', '\x1b[31m', '\x1b', '٣', '²', 'Ⅷ', '﻿', '\x00', '𝟙', 'İ', 'ß', '\n', '\r', "'", '\\', '{', '}', '<', '>', '%s', '$(x)']


def gen_text(rng, voc):
    r = rng.random()
    if r < 0.3:
        return ''.join(rng.choice(MATCHER_ALPHABET) for _ in range(rng.randint(0, 30)))
    if r < 0.6:
        t = R.render(R.gen_matcher(rng, voc))
        for _ in range(rng.randint(1, 3)):
            k = rng.random()
            pos = rng.randint(0, len(t))
            if k < 0.4:
                t = t[:pos] + rng.choice(MATCHER_ALPHABET + '[]()""!!') + t[pos:]
            elif k < 0.7 and t:
                t = t[:pos] + t[pos + 1:]
            else:
                t = t[:pos] + rng.choice(UNICODE_BITS) + t[pos:]
        return t
    if r < 0.7:
        d = rng.randint(1, 50)
        return rng.choice(['[' * d + 'a' + ']' * d, '(' * d + ')' * d, '[' * d, 'a(' + '[' * d + '1' + ']' * d + ')',
                           '"' * d, 'a' + '.b' * d, 'a:' * d, '!' * d, ',' * d, '9' * 5000, 'a(' + '9' * 5000 + ')',
                           '1' * 30 + 'b', '1e400', 'a(1e400)', 'a(nan)', 'a(-inf)', '0x10', 'a(x=[)', '=', '(=)', '.', ':', '@', '#',
                           'a@@1', 'a#1#2', '1a1', 'a@b', '@1', '#a', 'nil', 'a(nil=nil)', '[!]', '(!)', '.(!)', 'a ! ', ' ! a', '*!*',
                           # wildcard identifiers as argument values (they are compared with the types of object and nil arguments)
                           '(wl_*)', '(*_buffer)', '(x=wl_*)', '(vsim_*)', '(a0=*_*)', '(*l*)', '.(w*, nil)', '(! wl_*)'])
    if r < 0.85:
        return ''.join(rng.choice(UNICODE_BITS + list('ab.(),![]')) for _ in range(rng.randint(1, 12)))
    return ''.join(chr(rng.choice([rng.randint(32, 126), rng.randint(0xa0, 0x2fff), rng.randint(0x1f300, 0x1f6ff)]))
                   for _ in range(rng.randint(1, 200)))


def gen_command(rng, voc):
    r = rng.random()
    words = ['help', 'list', 'filter', 'breakpoint', 'matcher', 'connection', 'resume', 'quit', 'w', 'wl', 'wlfilter',
             'wllist', 'wl list', 'w w w help', 'h', 'l', 'f', 'b', 'm', 'c', 'r', 'q', 'li', 'x', 'listt', 'LIST', 'Help',
             'wl', 'wlx', '', ' ', 'help help', 'help wl', 'help wllist', 'help x', 'help matcher', 'list ~', 'list ~ x', 'list ~ 1 ~ 2',
             'list ~ -1', 'list ~ 99999999999999999999', 'list a ~', 'list ~1', 'connection  ', 'connection all ', 'connection A B',
             'c all', 'filter', 'breakpoint', 'matcher', 'filter  ', '\tlist\t*', 'list\x0b*', 'list\x0c*', 'list\xa0*',
             'w  help', 'wl   list', 'w \t help', 'wl  ', 'w   w  help', 'list ~ ²', 'list ~ ①', 'list ~ ₂', 'list ~ ٣', 'list ~ ' + '9' * 5000,
             'list * ~ ²', 'list ~ 1e3', 'list ~ 0x10', 'list ~ +5', 'list ~ 5 ', 'list ~  5', 'list ~ 1_000',
             'w ' * 1500 + 'help', 'wl ' * 3000 + 'list', 'w wl ' * 700, 'list ' + '(' * 3000, 'filter ' + '[' * 2000 + ']' * 2000,
             'matcher ' + 'a,' * 5000 + 'a', 'list ' + '!' * 2000, 'help ' + 'wl' * 2000]
    if r < 0.35:
        return rng.choice(words)
    if r < 0.7:
        return rng.choice(['list ', 'filter ', 'breakpoint ', 'matcher ', 'connection ', 'help ', 'l ', 'wl filter ', 'wlmatcher ']) + gen_text(rng, voc)
    if r < 0.85:
        return ''.join(chr(rng.randint(32, 126)) for _ in range(rng.randint(1, 256)))
    return gen_text(rng, voc)


def generate(seed, tier, index):
    rng = random.Random('%d/gen' % seed)
    kind = ['log', 'matcher', 'command'][index % 3]
    nconn = rng.choice([1, 1, 2, 3])
    total = rng.randint(5, 60)
    per = [L.gen_conn_intents(seed, c, max(1, total // nconn), rng.choice(['mixed', 'churn', 'objects'])) for c in range(nconn)]
    intents = L.interleave(rng, per, chatter_rate=rng.choice([0, 0.1, 0.3]))
    cfg = {'kind': kind, 'nconn': nconn, 'sides': [rng.choice(['client', 'server']) for _ in range(nconn)],
           'dialect': L.pick_dialect(rng, nconn), 'epoch_us': rng.choice([0, rng.randrange(1 << 32)]),
           'suppress': rng.random() < 0.3, 'nonewline': rng.random() < 0.3}
    sc = {'prop': ID, 'seed': seed, 'config': cfg, 'intents': intents, 'faults': [], 'texts': []}
    nf = rng.choice([1, 1, 2, 3, 5, 8, 20]) if kind == 'log' else rng.choice([0, 0, 1, 3])
    kinds = F.LINE_KINDS + F.BYTE_KINDS
    if rng.random() < 0.5:
        kinds = rng.sample(kinds, rng.randint(1, 5))       # swarm: a random subset of fault kinds per run
    sc['faults'] = F.gen_faults(rng, nf, kinds)
    if kind == 'log':
        cfg.update({'mode': rng.choice(['file', 'pipe', 'pipe', 'run']), 'stdin_errors': rng.choice(['strict', 'surrogateescape']),
                    'chunks': L.gen_chunks(rng), 'cap': rng.choice([64, 4096, 65536]), 'sched_seed': rng.randrange(1 << 30),
                    'status': rng.randrange(256)})
        if cfg['mode'] == 'run':
            cfg['chunks'] = [max(c, 64) for c in cfg['chunks']]
    else:
        st = L.build_stream(sc, rig.REPO)
        voc = R.Vocab(st, oracles.conn_names(st))
        n = rng.randint(3, 12)
        if kind == 'matcher':
            sc['texts'] = [gen_text(rng, voc) for _ in range(n)]
            cfg['via'] = rng.choice(['parse', 'command', 'command', 'argv'])
        else:
            sc['texts'] = [gen_command(rng, voc) for _ in range(n)]
        cfg['positions'] = [rng.random() for _ in range(n)]
    return sc


def faulty_bytes(sc, st, counts):
    lines = [t for t, _ in st.lines]
    lines = F.apply_line_faults(lines, sc.get('faults') or [], counts)
    body = '\n'.join(lines)
    if lines and (not sc['config'].get('nonewline') or lines[-1] == ''):
        body += '\n'
    data = body.encode('utf-8', 'surrogateescape')
    return F.apply_byte_faults(data, sc.get('faults') or [], counts)


def trigger_of(tb):
    """exception type + innermost frame inside the repo: identifies the failing call site"""
    lines = [l.strip() for l in (tb or '').splitlines()]
    site = ''
    for l in lines:
        if l.startswith('File "') and rig.REPO in l:
            parts = l.split('"')
            fn = parts[1].replace(rig.REPO + '/', '')
            func = l.rsplit(' in ', 1)[-1]
            site = fn + ':' + func
    etype = lines[-1].split(':')[0] if lines else '?'
    return etype + '@' + site


def execute(sc):
    cfg = sc['config']
    V = common.Viol()
    st = L.build_stream(sc, rig.REPO)
    kind = cfg['kind']
    key = ''
    digest = canon = ''
    if kind == 'log':
        data = faulty_bytes(sc, st, V.counters)
        thread_errors = []
        old_hook = threading.excepthook
        threading.excepthook = lambda a: thread_errors.append((a.exc_type.__name__, str(a.exc_value)))
        deadlock = None
        try:
            try:
                res = common.run_mode(cfg, data, cfg['chunks'], stdin_errors=cfg.get('stdin_errors', 'strict'))
            except rig.SimDeadlock as e:
                deadlock = str(e)
                res = None
            for t in threading.enumerate():
                if t.name == 'subprocess' and t is not threading.current_thread():
                    t.join(timeout=2)
        finally:
            threading.excepthook = old_hook
        V.bump('log_mode_' + cfg['mode'])
        if deadlock:
            V.add('C18/not-consumed', 'deadlock', deadlock)
        elif res.exception is not None:
            V.add('C18/log-exception', trigger_of(res.traceback), res.traceback[-1500:])
        else:
            if cfg['mode'] == 'run':
                consumed = res.shim.pipe.delivered == len(data) and res.shim.raw.eof
                if res.exit_code != cfg['status']:
                    V.add('C18/log-exception', 'exit-status', 'exit status %r, program exited with %d' % (res.exit_code, cfg['status']))
            else:
                consumed = res.raw.eof_delivered and res.raw.pos == len(data)
                if cfg['mode'] == 'file' and res.exit_code not in (None, 0):
                    V.add('C18/log-exception', 'exit-status', 'exit status %r' % (res.exit_code,))
            if not consumed:
                V.add('C18/not-consumed', cfg['mode'], 'input was not read to its end')
            items = L.out_items(res.rec)
            news = sorted(o.notice[2] for o in items if o.kind == 'notice' and o.notice[0] == 'New')
            closed = sorted(o.notice[2] for o in items if o.kind == 'notice' and o.notice[0] == 'Closed')
            if news != closed:
                V.add('C18/unclosed', cfg['mode'], 'New %r vs Closed %r' % (news, closed))
            if any(k == 'out' and 'Traceback (most recent call last)' in p for s, k, p in res.rec.events):
                V.bump('probe_tool_reported_internal_error_and_carried_on')
            if thread_errors:
                V.add('C18/log-exception', 'thread:' + thread_errors[0][0], repr(thread_errors[:2]))
            digest, canon = res.rec.digest(), res.rec.digest(True)
        key = rig.hashlib.sha256(data).hexdigest()
        nontrivial = any(k.startswith('fault_') for k in V.counters)
    else:
        # a (possibly faulty) session in the component rig, with texts typed at arbitrary points
        counts = V.counters
        lines = F.apply_line_faults([t for t, _ in st.lines], sc.get('faults') or [], counts)
        texts = sc['texts']
        poss = cfg.get('positions') or []
        via = cfg.get('via', 'command')
        steps = [('line', l) for l in lines]
        cmds = []
        if kind == 'command':
            cmds = list(texts)
        elif via == 'command':
            rng = random.Random(sc['seed'])
            cmds = [rng.choice(['filter ', 'list ', 'breakpoint ', 'matcher ']) + t for t in texts]
        for i, c in enumerate(cmds):
            p = poss[i] if i < len(poss) else 1.0
            steps.insert(int(p * len(steps)), ('cmd', c))
        rec = rig.Recorder()
        res = rig.run_component(steps, show_unprocessed=not cfg['suppress'], rec=rec)
        if res.exception is not None:
            sig = 'C18/command-exception' if kind == 'command' else 'C18/matcher-exception'
            V.add(sig, trigger_of(res.traceback), 'last command: %r\n%s' % (
                [p for s, k, p in rec.events if k == 'cmd'][-1:], res.traceback[-1500:]))
        else:
            segs = [s for s in S.segments(rec) if s.kind == 'cmd']
            t = rig.tool()
            for seg in segs:
                if not seg.outs and not seg.errs:
                    first = seg.payload.strip().split()[0] if seg.payload.strip() else ''
                    names = ['help', 'list', 'filter', 'breakpoint', 'matcher', 'connection', 'resume', 'quit']
                    w = t['util'].no_color(first)
                    if w in ('w', 'wl'):
                        continue
                    if w.startswith('wl'):
                        w = w[2:]
                    hits = [n for n in names if n.startswith(w)]
                    if len(hits) != 1:
                        V.add('C18/silent-unknown-command', 'silent', 'command %r produced neither output nor an error' % seg.payload)
                    else:
                        V.bump('silent_valid_command_not_judged')
            if kind == 'matcher':
                msgs = [m for c in res.conn_manager.connections() for m in c.messages()]
                # a fixed battery of plainly valid matchers is evaluated on every recorded message as well
                battery = ['(5)', '(x=5)', '(0)', 'wl_*', '*_v1', '.new', '.destroyed', '5', '3a', '(nil)', '("a")', '(1.5)', '(x=)',
                           'A: wl_*', 'wl_*.*(*)', '[wl_* ! wl_display]', '(wl_surface)', '([1, 2])', '5.new', 'wl_*.destroyed']
                for text in list(texts) + battery:
                    V.bump('matcher_texts')
                    try:
                        m = t['matcher'].parse(text)
                    except RuntimeError:
                        V.bump('matcher_rejected')
                        continue
                    except Exception as e:  # noqa
                        import traceback
                        V.add('C18/matcher-exception', trigger_of(traceback.format_exc()), 'matcher.parse(%r) raised %r' % (text, e))
                        continue
                    V.bump('matcher_accepted')
                    try:
                        str(m)
                        repr(m)
                        ms = m.simplify()
                        str(ms)
                        for msg in msgs:
                            m2 = t['matcher'].parse(text)
                            m2.matches(msg)
                            ms.matches(msg)
                    except Exception as e:  # noqa
                        import traceback
                        V.add('C18/matcher-eval-exception', trigger_of(traceback.format_exc()), 'matcher %r: %r' % (text, e))
                if via == 'argv':
                    for text in texts[:4]:
                        flag = random.Random(text).choice(['-f', '-b'])
                        r2 = rig.run_main(['main.py', '-C', flag, text, '-l', 'x.log'], b'', [1])
                        V.bump('matcher_via_argv')
                        if r2.exception is not None and not isinstance(r2.exception, SystemExit):
                            V.add('C18/matcher-exception', 'argv:' + trigger_of(r2.traceback), 'main.py %s %r: %s' % (flag, text, r2.traceback[-800:]))
                        try:
                            accepted = True
                            t['matcher'].parse(text)
                        except Exception:
                            accepted = False
                        if not accepted and r2.exception is None and r2.main_error is None and text.strip() and not text.startswith('-'):
                            # argparse may also have rejected it (usage error -> SystemExit(2)); silence is the violation
                            if r2.exit_code in (None, 0):
                                V.add('C18/matcher-exception', 'argv-ignored', 'malformed %s value %r was silently ignored' % (flag, text))
            digest, canon = rec.digest(), rec.digest(True)
        key = repr(texts) + repr(sc.get('faults'))
        nontrivial = True
    return {'violations': V.list, 'counters': V.counters, 'nt_keys': [key] if nontrivial else [], 'inter_key': key[:200],
            'states': [], 'digest': digest, 'canon': canon, 'sim_us': st.world.now - st.world.epoch_us, 'evals': 1,
            'sample': {'kind': kind, 'faults': sc.get('faults')[:5], 'texts': [x[:60] for x in sc.get('texts', [])[:5]],
                       'mode': cfg.get('mode')}}
