"""C16 — displayed times are the log's times relative to the first message; one-second gap separators."""
import copy
import random

from .. import logworld as L
from .. import world as W
from .. import refmatch as R
from .. import session as S
from .. import oracles
from .. import printer as P
from .. import rig
from . import common
from . import c06

ID = 'C16'
LEVEL = 'exploration'
RUNS = {'quick': 4800}
BUDGET_S = {'thorough': 600}
CMD_WEIGHTS = {'filter': 5, 'list': 5, 'connection': 2, 'resume': 1, 'breakpoint': 2}   # breakpoints: a message may be stopped at while the filter hides it
RULE = ('one evaluation = one simulated session replayed, same seed, under clock epoch 0 / a second epoch in [1, 2^32) and, in the '
        'old printer dialect, with both decimal marks (the clock is the injected fault); inter-message gaps are drawn on the '
        'microsecond lattice around the one-second threshold (999998..1000002) among sub-ms steps and minutes; filters make the '
        'shown sequence a strict subsequence of the log. Non-trivial = at least one separator expected and one adjacent shown pair '
        'without separator; distinct = hash of (gap pattern of the shown sequence, commands)')
REAL = c06.REAL
STUBBED = c06.STUBBED + ['timestamps rendered from the simulator clock']
ASSUMPTIONS = ['a gap of exactly 1 000 000 us is don\'t-care (float subtraction of two ms values decides it depending on the epoch); '
               'a live pair separated by a non-empty listing is unchecked; displayed values compared at +-1 unit of the last printed digit']
SHRINK_FIELDS = ['intents']
TOL = 0.5e-4 + 1e-9


def generate(seed, tier, index):
    sc = c06.gen_session(seed, tier, CMD_WEIGHTS, ncmd_range=(0, 5), initial_filter_p=0.5, pid=ID)
    rng = random.Random('%d/gen16' % seed)
    sc['config']['epoch_us'] = 0
    sc['config']['epoch2'] = rng.choice([1, 999, 1000, 123456789, rng.randrange(1, 1 << 32), (1 << 32) - 10**9])
    if rng.random() < 0.2:
        # "for all logs": lines stamped earlier than their predecessors (two processes writing one stderr), also earlier
        # than the very first line; times stay positive because both epochs are far enough from zero
        sc['config']['nonmonotonic'] = True
        sc['config']['epoch_us'] = 50 * 10**6
        sc['config']['epoch2'] = rng.choice([50 * 10**6 + 1, 123456789, rng.randrange(50 * 10**6, 1 << 31)])
        out = []
        budget = 40 * 10**6
        for it in sc['intents']:
            out.append(it)
            if it[0] == 'tick' and rng.random() < 0.25:
                back = rng.choice([1, 500, 999999, 1000000, 1000001, 2500000, rng.randint(1, 3000000)])
                if back <= budget:
                    budget -= back
                    out.append(['tick', -back])
        sc['intents'] = out
    return sc


def skeleton(rec):
    out = []
    for o in L.out_items(rec):
        if o.kind == 'msg':
            rest, life = c04_strip(o.text)
            out.append(('msg', rest, o.time, life))
        elif o.kind == 'sep':
            out.append(('sep', None, o.time, None))
        else:
            text, life = o.text, None
            if text.startswith(L.STOPPED_PREFIX):
                # a `Stopped at` notice repeats the message, lifespan included: same last-digit tolerance as on message lines
                dm = L.DESTROYED_RE.search(text)
                if dm and dm.group(5) is not None:
                    life = float(dm.group(5))
                    text = text[:dm.start(5)] + 'LIFE' + text[dm.end(5):]
            out.append(('other', text, None, life))
    return out


def c04_strip(text):
    from . import c04
    m = L.MSG_RE.match(text)
    rest = text[m.start(2):]
    life = None
    dm = L.DESTROYED_RE.search(rest)
    if dm and dm.group(5) is not None:
        life = float(dm.group(5))
        rest = rest[:dm.start(5)] + 'LIFE' + rest[dm.end(5):]
    return rest, life


def compare(base, other, V, sig, what):
    """equal except: a time column / lifespan / separator value may differ by one unit of the last digit; a separator
    may be present on one side only when it sits on the exact one-second threshold (printed 1.0000 or 1.0001: the
    don't-care of an exactly 1 000 000 us gap)"""
    i = j = 0
    a, b = base, other
    while i < len(a) or j < len(b):
        x = a[i] if i < len(a) else None
        y = b[j] if j < len(b) else None
        if x is not None and y is not None and x[0] == y[0]:
            if x[1] != y[1]:
                V.add(sig, what, 'outputs differ: %r vs %r' % (x, y))
                return
            if x[2] is not None and abs(x[2] - y[2]) > 1.0001e-4:
                V.add(sig, what, 'displayed time differs by more than the last digit: %r vs %r' % (x, y))
                return
            if (x[3] is None) != (y[3] is None) or (x[3] is not None and abs(x[3] - y[3]) > 1.0001e-4):
                V.add(sig, what, 'lifespan differs: %r vs %r' % (x, y))
                return
            i += 1
            j += 1
            continue
        if x is not None and x[0] == 'sep' and x[2] <= 1.0 + 1.5e-4:
            i += 1
            continue
        if y is not None and y[0] == 'sep' and y[2] <= 1.0 + 1.5e-4:
            j += 1
            continue
        V.add(sig, what, 'outputs differ at item %d/%d: %r vs %r' % (i, j, x, y))
        return


def first_diff(a, b):
    for i, (x, y) in enumerate(zip(a, b)):
        if x[:2] != y[:2]:
            return (i, x, y)
    return (min(len(a), len(b)), None, None)


def judge_times(sc, st, res, metas, V):
    cfg = sc['config']
    names = oracles.conn_names(st)
    segs = S.segments(res.rec)
    fstate = S.initial_state(cfg.get('filter_model'), 'star')
    sel = S.Selection()
    selected = None
    recorded = []
    opened = sel.opened
    line_items = [it for _, it in st.lines]
    li = ci = 0
    t0 = None
    for _, it in st.lines:
        if isinstance(it, W.Closure):
            t0 = it.t_us
            break
    last_live = None
    unchecked_next = False
    gaps = []

    def check_pair(prev, cur, seps_before, where):
        gap = cur.t_us - prev.t_us
        if gap < 0:
            V.bump('fault_clock_went_backwards_between_shown')
        if gap == 1000000:
            V.bump('dontcare_exact_one_second')
            return
        if abs(gap - 1000000) <= 2:
            V.bump('probe_gap_within_2us_of_1s')
        if gap > 1000000:
            gaps.append('S')
            if not seps_before:
                V.add('C16/separator-missing', where, 'no separator between shown messages %s and %s, gap %d us' % (prev.brief(), cur.brief(), gap))
            elif abs(seps_before[-1].time - gap / 1e6) > TOL:
                V.add('C16/separator-value', where, 'separator says %.4f s, gap is %d us' % (seps_before[-1].time, gap))
            V.bump('separators_expected')
        else:
            gaps.append('-')
            if seps_before:
                V.add('C16/separator-spurious', where, 'separator %r between shown messages only %d us apart' % (seps_before[-1].text, gap))
            V.bump('adjacent_pairs_without_separator')

    for seg in segs:
        outs = seg.outs
        # separators must be immediately followed by a message line
        for i, o in enumerate(outs):
            if o.kind == 'sep' and (i + 1 >= len(outs) or outs[i + 1].kind != 'msg'):
                V.add('C16/separator-spurious', 'dangling', 'separator %r not followed by a message line' % o.text)
        if seg.kind == 'line':
            it = line_items[li]
            li += 1
            if not isinstance(it, W.Closure):
                continue
            cl = it
            nm = names[cl.conn]
            sel.saw(cl, nm)
            recorded.append(cl)
            shown = [o for o in outs if o.kind == 'msg']
            if len(shown) == 1 and S.line_matches(shown[0], (nm, cl.target.iface, cl.target.id, W.letters(cl.target.gen), cl.name, shown[0].time)):
                o = shown[0]
                want = (cl.t_us - t0) / 1e6
                if abs(o.time - want) > TOL:
                    V.add('C16/time-value', 'live', 'line %r shows %.4f, log time minus first log time is %.6f' % (o.text, o.time, want))
                V.bump('times_checked')
                idx = outs.index(o)
                seps = [x for x in outs[:idx] if x.kind == 'sep']
                if last_live is not None and not unchecked_next:
                    check_pair(last_live, cl, seps, 'live')
                elif last_live is None and seps and not unchecked_next:
                    V.add('C16/separator-spurious', 'first', 'separator before the first shown message')
                elif unchecked_next:
                    # a non-empty listing lies between this live message and the previous one: the statement does not say
                    # whether the two still count as "shown one after the other". No separator is always fine; a separator is
                    # tolerated only under that reading (gap between the two *live* messages, > 1 s); anything else - e.g. a
                    # gap measured from the last *listed* line - is a separator "elsewhere"
                    V.bump('dontcare_live_pair_split_by_listing')
                    if seps:
                        gap = None if last_live is None else cl.t_us - last_live.t_us
                        if gap is None or gap <= 1000000 or abs(seps[-1].time - gap / 1e6) > TOL:
                            V.add('C16/separator-spurious', 'after-listing',
                                  'separator %r between a listing and the next live message %s (previous live message: %s)'
                                  % (seps[-1].text, cl.brief(), None if last_live is None else last_live.brief()))
                last_live = cl
                unchecked_next = False
            elif any(o.kind == 'sep' for o in outs) and not shown:
                V.add('C16/separator-spurious', 'hidden', 'separator printed for a message that is not shown')
        elif seg.kind == 'cmd':
            meta = metas[ci] if ci < len(metas) else {'t': 'other'}
            ci += 1
            t = meta.get('t')
            if t == 'filter' and meta.get('m') is not None and not meta.get('bad'):
                fstate.apply(meta['m'])
            elif t == 'connection':
                sel.command(meta)
                selected = sel.selected
            elif t == 'other':
                # a listing outside the reference's matcher subset: its lines are not judged, but it does lie between live messages
                if any(o.kind == 'msg' for o in outs):
                    unchecked_next = True
            elif t == 'list':
                shown = [o for o in outs if o.kind == 'msg']
                if shown:
                    unchecked_next = True
                scope = [c for c in recorded if selected is None or names[c.conn] == selected]
                ms = S.initial_state(meta['m'], 'star') if meta.get('m') is not None else fstate
                if meta.get('m') is not None and meta['m']['kind'] == 'bang':
                    ms = S.MState('bang')
                verd = [ms.value(c, names[c.conn]) for c in scope]
                if any(v == S.DC for v in verd):
                    V.bump('listing_with_dontcare_not_judged')
                    continue
                must = [c for c, v in zip(scope, verd) if v == S.MUST]
                cap = meta.get('cap') or None
                if cap:
                    must = must[-cap:]
                if len(must) != len(shown):
                    V.bump('listing_content_mismatch_not_judged_here')
                    continue
                prev = None
                pos = 0
                for o, c in zip(shown, must):
                    want = (c.t_us - t0) / 1e6
                    if abs(o.time - want) > TOL:
                        V.add('C16/time-value', 'listing', 'listed line %r shows %.4f, expected %.6f' % (o.text, o.time, want))
                    idx = outs.index(o, pos)
                    seps = [x for x in outs[pos:idx] if x.kind == 'sep']
                    pos = idx + 1
                    if prev is None:
                        if seps:
                            V.add('C16/separator-spurious', 'listing-first', 'separator before the first line of a listing')
                    else:
                        check_pair(prev, c, seps, 'listing')
                    prev = c
                    V.bump('times_checked')
    return ''.join(gaps)


def execute(sc):
    V = common.Viol()
    st, res, tr, metas = S.run(sc)
    gaps = ''
    if res.exception is not None:
        V.add('C16/time-value', 'exception:' + type(res.exception).__name__, res.traceback[-1500:])
    else:
        gaps = judge_times(sc, st, res, metas, V)
        base = skeleton(res.rec)
        evals = 1
        # clock shift
        sc2 = copy.deepcopy(sc)
        sc2['config']['epoch_us'] = sc['config'].get('epoch2', 12345)
        st2, res2, tr2, metas2 = S.run(sc2)
        V.bump('fault_clock_epoch_shift')
        if res2.exception is not None:
            V.add('C16/shift', 'exception', res2.traceback[-1200:])
        else:
            compare(base, skeleton(res2.rec), V, 'C16/shift', 'epoch %d' % sc2['config']['epoch_us'])
            judge_times(sc2, st2, res2, metas2, V)
        # decimal mark
        d = sc['config']['dialect']
        dd = P.PRESETS[d] if isinstance(d, str) else d
        if dd['time'] == 'f':
            sc3 = copy.deepcopy(sc)
            sc3['config']['mark'] = ',' if dd['mark'] == '.' else '.'
            st3, res3, tr3, metas3 = S.run(sc3)
            V.bump('fault_decimal_mark_flipped')
            if res3.exception is not None:
                V.add('C16/decimal-mark', 'exception', res3.traceback[-1200:])
            else:
                a = [(x[0], x[2]) for x in base if x[0] in ('msg', 'sep')]
                b = [(x[0], x[2]) for x in skeleton(res3.rec) if x[0] in ('msg', 'sep')]
                if a != b:
                    V.add('C16/decimal-mark', 'differs', 'time columns / separators differ between decimal marks: %r' % (first_diff([(k, None, t) for k, t in a], [(k, None, t) for k, t in b]),))
            # the same times written with another number of decimals (six; trailing zeros dropped): same values, same display
            sc4 = copy.deepcopy(sc)
            sc4['config']['time_spelling'] = 'long' if sc['seed'] % 2 else 'short'
            st4, res4, tr4, metas4 = S.run(sc4)
            V.bump('fault_time_spelt_' + sc4['config']['time_spelling'])
            if res4.exception is not None:
                V.add('C16/decimal-mark', 'spelling-exception', res4.traceback[-1200:])
            else:
                a = [(x[0], x[2]) for x in base if x[0] in ('msg', 'sep')]
                b = [(x[0], x[2]) for x in skeleton(res4.rec) if x[0] in ('msg', 'sep')]
                if a != b:
                    V.add('C16/decimal-mark', 'spelling', 'time columns / separators differ when the same times are written with %s decimals: %r' % (
                        sc4['config']['time_spelling'], first_diff([(k, None, t) for k, t in a], [(k, None, t) for k, t in b]),))
    nontrivial = V.counters.get('separators_expected', 0) > 0 and V.counters.get('adjacent_pairs_without_separator', 0) > 0
    r = c06.finish(sc, st, res, V, nontrivial)
    r['nt_keys'] = [gaps + repr([it[1] for it in sc['intents'] if it[0] == 'cmd'])] if nontrivial else []
    r['evals'] = 3 + V.counters.get('fault_time_spelt_long', 0) + V.counters.get('fault_time_spelt_short', 0)
    return r
