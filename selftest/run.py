#!/venv/bin/python
"""Sensitivity self-test (development-time, not registered in the manifest):
apply hand-written realistic breakages to scratch copies of /repo and require the quick check to fail.

usage: selftest/run.py [PROP ...] [--name substring] [--skip-suite]
"""
import os
import sys
import json
import shutil
import subprocess
import tempfile

HERE = os.path.dirname(os.path.abspath(__file__))
VERIF = os.path.dirname(HERE)
sys.path.insert(0, HERE)
from mutants import MUTANTS  # noqa: E402

BASELINE = json.load(open('/root/.vp/BASELINE.json'))['stable_pass']


def suite_ok(repo):
    junit = os.path.join(repo, '.junit.xml')
    subprocess.run(['/venv/bin/python', '-m', 'pytest', '-q', '-p', 'no:cacheprovider', '--timeout=900',
                    '--continue-on-collection-errors', '--junitxml=' + junit], cwd=repo,
                   stdout=subprocess.DEVNULL, stderr=subprocess.DEVNULL,
                   env=dict(os.environ, PYTHONDONTWRITEBYTECODE='1'))
    import xml.etree.ElementTree as ET
    passed = set()
    for tc in ET.parse(junit).getroot().iter('testcase'):
        if not any(ch.tag in ('failure', 'error', 'skipped') for ch in tc):
            passed.add(tc.attrib['classname'] + '::' + tc.attrib['name'])
    missing = [t for t in BASELINE if t not in passed]
    return missing


def main():
    args = [a for a in sys.argv[1:] if not a.startswith('--')]
    name_filter = None
    if '--name' in sys.argv:
        name_filter = sys.argv[sys.argv.index('--name') + 1]
        args = [a for a in args if a != name_filter]
    skip_suite = '--skip-suite' in sys.argv
    results = []
    for m in MUTANTS:
        if args and m['prop'] not in args:
            continue
        if name_filter and name_filter not in m['name']:
            continue
        tmp = tempfile.mkdtemp(prefix='wdmut-', dir=os.environ.get('TMPDIR', '/tmp'))
        repo = os.path.join(tmp, 'repo')
        try:
            shutil.copytree('/repo', repo, ignore=shutil.ignore_patterns('.git', '__pycache__'))
            for path, old, new in m['edits']:
                p = os.path.join(repo, path)
                s = open(p).read()
                assert s.count(old) >= 1, 'mutant %s: pattern not found in %s' % (m['name'], path)
                s = s.replace(old, new, 1)
                open(p, 'w').write(s)
            missing = [] if skip_suite else suite_ok(repo)
            r = subprocess.run([os.path.join(VERIF, 'check'), m['prop'], '--tier', 'quick', '--no-evidence'],
                               cwd=VERIF, env=dict(os.environ, VERIF_REPO=repo), capture_output=True, text=True)
            viol = [l for l in r.stdout.splitlines() if l.startswith('VIOLATION')]
            detail = [l for l in r.stdout.splitlines() if l.startswith('  ')][:1]
            ok = (r.returncode == 1 and viol)
            results.append((m['prop'], m['name'], 'CAUGHT' if ok else 'MISSED(exit %d)' % r.returncode,
                            'suite-ok' if not missing else 'SUITE-BREAKS:%d' % len(missing), detail[0][:160] if detail else r.stdout[-300:]))
            print(results[-1], flush=True)
        finally:
            shutil.rmtree(tmp, ignore_errors=True)
    missed = [r for r in results if not r[2].startswith('CAUGHT')]
    print('%d mutants, %d caught, %d missed' % (len(results), len(results) - len(missed), len(missed)))
    return 1 if missed else 0


if __name__ == '__main__':
    sys.exit(main())
