#!/bin/bash
# usage: tools/seedall.sh C10 C11 ...   evaluates patch.diff/demo.py and patch2.diff/demo2.py of each ${SEEDDIR:-/tmp/seed-out}/<ID>
for p in "$@"; do
  for k in "" 2; do
    if [ -f ${SEEDDIR:-/tmp/seed-out}/$p/patch$k.diff ]; then
      /verif/tools/seedcheck.py ${SEEDDIR:-/tmp/seed-out}/$p $p --patch patch$k.diff --demo demo$k.py > ${SEEDDIR:-/tmp/seed-out}/$p/result$k.json 2>&1
      python3 - <<PY
import json
try:
    r=json.load(open('${SEEDDIR:-/tmp/seed-out}/$p/result$k.json'))
    print('$p', 'patch$k', 'suite', r.get('suite_still_passes'), 'demo', r.get('demo_fails_with_patch'), r.get('demo_passes_without'), 'CAUGHT' if r.get('caught_by_own_check') else 'MISSED', (r.get('checks',{}).get('$p',{}).get('detail') or '')[:200])
except Exception as e:
    print('$p patch$k: evaluation failed', e, open('${SEEDDIR:-/tmp/seed-out}/$p/result$k.json').read()[-300:])
PY
    fi
  done
done
