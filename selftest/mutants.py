"""Hand-written realistic breakages (DESIGN.md appendix F). Each is (file, old text, new text)."""
PARSE = 'backends/libwayland_debug_output/parse.py'
CTRL = 'frontends/tui/controller.py'
OUTPUT = 'core/output/output.py'
CONN = 'core/connection_impl.py'
MGR = 'core/connection_manager.py'
MSG = 'core/wl/message.py'
OBJ = 'core/wl/object.py'
ARG = 'core/wl/arg.py'
RUNNER = 'backends/libwayland_debug_output/runner.py'
MATCHER = 'core/matcher.py'
PLUGIN = 'backends/gdb_plugin/plugin.py'
EXTRACT = 'backends/gdb_plugin/extract.py'
LETTER = 'core/letter_id_generator.py'
UTIL = 'core/util.py'
MAIN = 'main.py'

MUTANTS = [
    dict(prop='C08', name='strip-before-empty-check', edits=[(PARSE,
        "            if line == '':\n                break\n            line = line.strip() # be sure to strip after the empty check",
        "            line = line.strip()\n            if line == '':\n                break")]),
    dict(prop='C08', name='unprocessed-drops-every-second', edits=[(OUTPUT,
        "        if self.show_unprocessed:\n            self.show(",
        "        self._n = getattr(self, '_n', 0) + 1\n        if self.show_unprocessed and self._n % 2:\n            self.show(")]),
    dict(prop='C08', name='no-cleanup-after-interrupt', edits=[(PARSE,
        "            except KeyboardInterrupt:\n                break",
        "            except KeyboardInterrupt:\n                self.known_connections = set()\n                break")]),
    dict(prop='C08', name='output-queued-until-eof', edits=[(PARSE,
        "            except RuntimeError as e:\n                self.out.unprocessed(str(e))",
        "            except RuntimeError as e:\n                self._late = getattr(self, '_late', []) + [str(e)]"),
        (PARSE, "    def cleanup(self):\n", "    def cleanup(self):\n        for s in getattr(self, '_late', []):\n            self.out.unprocessed(s)\n")]),
    dict(prop='C08', name='suppress-also-hides-after-first', edits=[(OUTPUT,
        "            self.show(color(symbol_color, ' ' * 6 + ' |  ' + ' '.join(map(lambda m: str(m), msg))))",
        "            self.show(color(symbol_color, ' ' * 6 + ' |  ' + ' '.join(map(lambda m: str(m).lstrip('['), msg))))")]),
    dict(prop='C02', name='generation-off-by-one-on-reuse', edits=[(CONN,
        "        generation = len(self.db[obj_id])\n", "        generation = max(0, len(self.db[obj_id]) - 1)\n")]),
    dict(prop='C02', name='retrieve-latest-returns-first', edits=[(CONN,
        "            obj = obj_list[generation]\n", "            obj = obj_list[generation if generation >= 0 else 0]\n")]),
    dict(prop='C02', name='args-resolved-before-bind-typing', edits=[(MSG,
        "        if self.obj.type == 'wl_registry' and self.name == 'bind':\n            assert len(self.args) == 4\n            assert isinstance(self.args[1], Arg.String)\n            assert isinstance(self.args[3], Arg.Object)\n            self.args[3].set_type(self.args[1].value)\n",
        ""),
        (MSG, "        for i, arg in enumerate(self.args):\n            arg.resolve(conn, self, i)\n",
         "        for i, arg in enumerate(self.args):\n            arg.resolve(conn, self, i)\n        if self.obj.type == 'wl_registry' and self.name == 'bind':\n            self.args[3].set_type(self.args[1].value)\n")]),
    dict(prop='C02', name='server-range-new-ids-not-created', edits=[(ARG,
        "                if self.is_new:\n", "                if self.is_new and not self.obj.owned_by_server():\n")]),
    dict(prop='C02', name='delete-id-resolves-args-first', edits=[(MSG,
        "            self.destroyed_obj = conn.retrieve_object(first_arg.value, -1, None)",
        "            self.destroyed_obj = conn.retrieve_object(first_arg.value, 0, None)")]),
    dict(prop='C03', name='destroy-leaves-alive', edits=[(OBJ,
        "        self.destroy_time = time\n        self.alive = False", "        self.destroy_time = time\n        self.alive = self.owned_by_server()")]),
    dict(prop='C03', name='implicit-destroy-wrong-time', edits=[(CONN,
        "                    last_obj.destroy(time)", "                    last_obj.destroy(last_obj.create_time)")]),
    dict(prop='C03', name='lifespan-is-destroy-time', edits=[(OBJ,
        "            return self.destroy_time - self.create_time", "            return self.destroy_time")]),
    dict(prop='C03', name='delete-id-hits-first-generation', edits=[(MSG,
        "            self.destroyed_obj = conn.retrieve_object(first_arg.value, -1, None)",
        "            self.destroyed_obj = conn.retrieve_object(first_arg.value, 0, None)")]),
    dict(prop='C03', name='delete-id-only-when-received', edits=[(MSG,
        "        if self.obj == conn.wl_display() and self.name == 'delete_id' and len(self.args) > 0:",
        "        if self.obj == conn.wl_display() and self.name == 'delete_id' and len(self.args) > 0 and not self.sent:")]),
    dict(prop='C04', name='db-shared-between-connections', edits=[(CONN,
        "        self.db = {1: [self.display]}", "        self.db = ConnectionImpl._db\n        self.db[1] = [self.display]"),
        (CONN, "class ConnectionImpl(Connection.Sink, Connection):\n", "class ConnectionImpl(Connection.Sink, Connection):\n    _db: dict = {}\n")]),
    dict(prop='C04', name='close-forgets-open-map', edits=[(MGR,
        "            del self.open_connections[connection_id]\n", "")]),
    dict(prop='C04', name='name-generator-per-open', edits=[(MGR,
        "        name = self.connection_name_generator.next()", "        name = LetterIdGenerator().next() if not self.connection_list else self.connection_name_generator.next()")]),
    dict(prop='C04', name='role-from-latest-get-registry', edits=[(PARSE,
        "            is_server = None\n            if msg.name ==  'get_registry':\n                is_server = not msg.sent",
        "            is_server = getattr(self, '_role', None)\n            if msg.name ==  'get_registry':\n                is_server = not msg.sent\n                self._role = is_server")]),
]
