"""In-process stand-in for GDB's Python API (only what plugin.py / extract.py touch) over a
byte-addressed fake inferior memory.  This module is named `gdb` and is put on sys.path of
GDB-world workers only (so core.util.check_gdb() is true there)."""
import re
import struct

STDOUT = 0
STDERR = 1
STDLOG = 2
COMMAND_DATA = 1
COMMAND_USER = 13
BP_BREAKPOINT = 1

TYPE_CODE_PTR = 1
TYPE_CODE_ARRAY = 2
TYPE_CODE_STRUCT = 3
TYPE_CODE_UNION = 4
TYPE_CODE_INT = 8
TYPE_CODE_VOID = 10
TYPE_CODE_CHAR = 20


class error(RuntimeError):
    pass


class GdbError(Exception):
    pass


class MemoryError(error):  # noqa: shadows the builtin as in real gdb
    pass


# ----------------------------------------------------------------------------- types

class Field:
    def __init__(self, name, bitpos, type_):
        self.name = name
        self.bitpos = bitpos
        self.type = type_
        self.bitsize = 0


class Type:
    def __init__(self, code, name, sizeof, target=None, fields=None, count=None, signed=True):
        self.code = code
        self.name = name
        self.tag = name
        self.sizeof = sizeof
        self._target = target
        self._fields = fields or []
        self.count = count
        self.signed = signed
        self._ptr = None

    def pointer(self):
        if self._ptr is None:
            self._ptr = Type(TYPE_CODE_PTR, None, 8, target=self)
        return self._ptr

    def target(self):
        if self._target is None:
            raise RuntimeError('Type does not have a target.')
        return self._target

    def fields(self):
        return list(self._fields)

    def strip_typedefs(self):
        return self

    def unqualified(self):
        return self

    def field(self, name):
        for f in self._fields:
            if f.name == name:
                return f
        raise error('There is no member named %s.' % name)

    def __str__(self):
        if self.code == TYPE_CODE_PTR:
            return str(self._target) + ' *'
        return self.name or '?'

    def __eq__(self, other):
        if not isinstance(other, Type):
            return False
        if self.code != other.code:
            return False
        if self.code == TYPE_CODE_PTR:
            return self._target == other._target
        return self.name == other.name and self.sizeof == other.sizeof

    def __hash__(self):
        return hash((self.code, self.name))


_types = {}


def _prim(name, size, signed, code=TYPE_CODE_INT):
    t = Type(code, name, size, signed=signed)
    _types[name] = t
    return t


T_VOID = _prim('void', 1, False, TYPE_CODE_VOID)
T_CHAR = _prim('char', 1, True, TYPE_CODE_CHAR)
T_INT = _prim('int', 4, True)
T_UINT = _prim('unsigned int', 4, False)
T_INT32 = _prim('int32_t', 4, True)
T_UINT32 = _prim('uint32_t', 4, False)
T_FIXED = _prim('wl_fixed_t', 4, True)
T_SIZE = _prim('size_t', 8, False)
T_LONG = _prim('long', 8, True)


def _struct(name, members, union=False):
    """members: list of (name, Type). Natural alignment, LP64."""
    fields = []
    off = 0
    maxalign = 1
    size = 0
    for mname, mtype in members:
        align = _align_of(mtype)
        maxalign = max(maxalign, align)
        if union:
            fields.append(Field(mname, 0, mtype))
            size = max(size, mtype.sizeof)
        else:
            off = (off + align - 1) // align * align
            fields.append(Field(mname, off * 8, mtype))
            off += mtype.sizeof
            size = off
    size = (size + maxalign - 1) // maxalign * maxalign
    t = _types.get(name)
    if t is None:
        t = Type(TYPE_CODE_UNION if union else TYPE_CODE_STRUCT, name, size)
        _types[name] = t
    t._fields = fields
    t.sizeof = size
    t.align = maxalign
    return t


def _align_of(t):
    if t.code == TYPE_CODE_PTR:
        return 8
    if t.code == TYPE_CODE_ARRAY:
        return _align_of(t._target)
    if t.code in (TYPE_CODE_STRUCT, TYPE_CODE_UNION):
        return getattr(t, 'align', 8)
    return min(t.sizeof, 8) or 1


def _array(elem, count):
    return Type(TYPE_CODE_ARRAY, None, elem.sizeof * count, target=elem, count=count)


def _fwd(name):
    t = _types.get(name)
    if t is None:
        t = Type(TYPE_CODE_STRUCT, name, 0)
        _types[name] = t
    return t


def _build_types():
    wl_interface = _fwd('wl_interface')
    wl_message = _fwd('wl_message')
    wl_object = _fwd('wl_object')
    wl_array = _fwd('wl_array')
    wl_proxy = _fwd('wl_proxy')
    wl_display = _fwd('wl_display')
    wl_client = _fwd('wl_client')
    wl_connection = _fwd('wl_connection')
    wl_list = _struct('wl_list', [('prev', _fwd('wl_list').pointer()), ('next', _fwd('wl_list').pointer())])
    _struct('wl_message', [('name', T_CHAR.pointer()), ('signature', T_CHAR.pointer()),
                           ('types', wl_interface.pointer().pointer())])
    _struct('wl_interface', [('name', T_CHAR.pointer()), ('version', T_INT), ('method_count', T_INT),
                             ('methods', wl_message.pointer()), ('event_count', T_INT), ('events', wl_message.pointer())])
    _struct('wl_object', [('interface', wl_interface.pointer()), ('implementation', T_VOID.pointer()), ('id', T_UINT32)])
    _struct('wl_array', [('size', T_SIZE), ('alloc', T_SIZE), ('data', T_VOID.pointer())])
    wl_argument = _struct('wl_argument', [('i', T_INT32), ('u', T_UINT32), ('f', T_FIXED), ('s', T_CHAR.pointer()),
                                          ('o', wl_object.pointer()), ('n', T_UINT32), ('a', wl_array.pointer()),
                                          ('h', T_INT32)], union=True)
    _struct('wl_closure', [('count', T_INT), ('message', wl_message.pointer()), ('opcode', T_UINT32),
                           ('sender_id', T_UINT32), ('args', _array(wl_argument, 20)), ('link', wl_list),
                           ('proxy', wl_proxy.pointer()), ('extra', _array(wl_array, 0))])
    _struct('wl_proxy', [('object', wl_object), ('display', wl_display.pointer()), ('queue', T_VOID.pointer()),
                         ('flags', T_UINT32), ('refcount', T_INT), ('user_data', T_VOID.pointer()),
                         ('dispatcher', T_VOID.pointer()), ('version', T_UINT32), ('tag', T_VOID.pointer()),
                         ('queue_link', wl_list)])
    _struct('wl_display', [('proxy', _types['wl_proxy']), ('connection', wl_connection.pointer()),
                           ('last_error', T_INT), ('fd', T_INT)])
    wl_signal = _struct('wl_signal', [('listener_list', wl_list)])
    _struct('wl_resource', [('object', wl_object), ('destroy', T_VOID.pointer()), ('link', wl_list),
                            ('deprecated_destroy_signal', wl_signal), ('client', wl_client.pointer()),
                            ('data', T_VOID.pointer()), ('version', T_INT), ('dispatcher', T_VOID.pointer())])
    _struct('wl_client', [('connection', wl_connection.pointer()), ('source', T_VOID.pointer()),
                          ('display', T_VOID.pointer()), ('display_resource', _types['wl_resource'].pointer())])
    _struct('wl_connection', [('opaque', _array(T_CHAR, 64))])


_build_types()


def lookup_type(name, block=None):
    n = name
    for pre in ('struct ', 'union '):
        if n.startswith(pre):
            n = n[len(pre):]
    t = _types.get(n)
    if t is None:
        raise error('No type named %s.' % name)
    return t


# ----------------------------------------------------------------------------- memory

HEAP_BASE = 0x555555560000


class Memory:
    def __init__(self):
        self.buf = bytearray()
        self.free = {}

    def alloc(self, size, reuse=False):
        size = (size + 15) // 16 * 16
        if reuse and self.free.get(size):
            addr = self.free[size].pop()
            self.write(addr, b'\xcd' * size)
            return addr
        addr = HEAP_BASE + len(self.buf)
        self.buf += b'\xcd' * size
        return addr

    def release(self, addr, size):
        size = (size + 15) // 16 * 16
        self.free.setdefault(size, []).append(addr)

    def check(self, addr, n):
        if addr < HEAP_BASE or addr + n > HEAP_BASE + len(self.buf):
            raise MemoryError('Cannot access memory at address 0x%x' % addr)

    def read(self, addr, n):
        if getattr(_sim, 'on_read', None) is not None:
            _sim.on_read()
        self.check(addr, n)
        o = addr - HEAP_BASE
        return bytes(self.buf[o:o + n])

    def write(self, addr, data):
        self.check(addr, len(data))
        o = addr - HEAP_BASE
        self.buf[o:o + len(data)] = data

    def cstring(self, addr):
        if getattr(_sim, 'on_read', None) is not None:
            _sim.on_read()
        if addr < HEAP_BASE or addr >= HEAP_BASE + len(self.buf):
            raise MemoryError('Cannot access memory at address 0x%x' % addr)
        o = addr - HEAP_BASE
        end = self.buf.find(b'\0', o)
        if end < 0:
            raise MemoryError('Cannot access memory at address 0x%x' % (HEAP_BASE + len(self.buf)))
        return bytes(self.buf[o:end])


# ----------------------------------------------------------------------------- values

class Value:
    """lvalue (addr set) or rvalue (raw set: python int)"""

    def __init__(self, type_, addr=None, raw=None):
        self.type = type_
        self.address_ = addr
        self.raw = raw
        self.is_optimized_out = False
        self._fetched = None      # like gdb: a lazy value reads inferior memory once and keeps the contents

    # -- scalar reads
    def _scalar(self):
        t = self.type
        if t.code in (TYPE_CODE_STRUCT, TYPE_CODE_UNION, TYPE_CODE_ARRAY):
            raise error('Cannot convert value to long.')
        if self.raw is not None:
            return self.raw
        if self._fetched is None:
            self._fetched = _sim.mem.read(self.address_, t.sizeof if t.code != TYPE_CODE_PTR else 8)
        data = self._fetched
        if t.code == TYPE_CODE_PTR:
            return struct.unpack('<Q', data)[0]
        fmt = {1: 'b', 2: 'h', 4: 'i', 8: 'q'}[t.sizeof]
        if not t.signed:
            fmt = fmt.upper()
        return struct.unpack('<' + fmt, data)[0]

    def __int__(self):
        return int(self._scalar())

    def __index__(self):
        return int(self._scalar())

    def __float__(self):
        return float(self._scalar())

    def __str__(self):
        if self.type.code == TYPE_CODE_PTR:
            return '0x%x' % self._scalar()
        if self.type.code in (TYPE_CODE_STRUCT, TYPE_CODE_UNION, TYPE_CODE_ARRAY):
            return '{...}'
        return str(self._scalar())

    def __bool__(self):
        return self._scalar() != 0

    def __eq__(self, other):
        try:
            return int(self) == int(other)
        except Exception:
            return False

    def __hash__(self):
        return id(self)

    def cast(self, type_):
        if type_.code == TYPE_CODE_PTR or type_.code in (TYPE_CODE_INT, TYPE_CODE_CHAR):
            v = self._scalar()
            if type_.code != TYPE_CODE_PTR:
                bits = type_.sizeof * 8
                v &= (1 << bits) - 1
                if type_.signed and v >= 1 << (bits - 1):
                    v -= 1 << bits
            return Value(type_, raw=v)
        if self.address_ is not None and type_.sizeof <= max(self.type.sizeof, type_.sizeof):
            return Value(type_, addr=self.address_)
        raise error('Invalid cast.')

    def dereference(self):
        if self.type.code != TYPE_CODE_PTR:
            raise error('Attempt to take contents of a non-pointer value.')
        addr = self._scalar()
        tgt = self.type.target()
        if tgt.code == TYPE_CODE_VOID:
            raise error('Attempt to take contents of a non-pointer value.')
        return Value(tgt, addr=addr)

    def referenced_value(self):
        return self.dereference()

    @property
    def address(self):
        if self.address_ is None:
            return None
        return Value(self.type.pointer(), raw=self.address_)

    def __add__(self, n):
        if self.type.code == TYPE_CODE_PTR:
            tgt = self.type.target()
            step = tgt.sizeof if tgt.code != TYPE_CODE_VOID else 1
            return Value(self.type, raw=self._scalar() + int(n) * step)
        return Value(self.type, raw=self._scalar() + int(n))

    def __radd__(self, n):
        return self.__add__(n)

    def __sub__(self, n):
        return self.__add__(-int(n))

    def __getitem__(self, key):
        t = self.type
        if isinstance(key, Field):
            key = key.name
        if isinstance(key, str):
            if t.code == TYPE_CODE_PTR:
                return self.dereference()[key]
            if t.code not in (TYPE_CODE_STRUCT, TYPE_CODE_UNION):
                raise error('Type %s does not have fields.' % t)
            f = t.field(key)
            if self.address_ is None:
                raise error('not an lvalue')
            # touching the field later reads memory; reading through NULL fails then, as in gdb
            return Value(f.type, addr=self.address_ + f.bitpos // 8)
        idx = int(key)
        if t.code == TYPE_CODE_ARRAY:
            return Value(t.target(), addr=self.address_ + idx * t.target().sizeof)
        if t.code == TYPE_CODE_PTR:
            return (self + idx).dereference()
        raise error('Cannot subscript requested type.')

    def string(self, encoding='utf-8', errors='strict', length=-1):
        t = self.type
        if t.code == TYPE_CODE_PTR and t.target().code in (TYPE_CODE_CHAR, TYPE_CODE_INT) and t.target().sizeof == 1:
            addr = self._scalar()
        elif t.code == TYPE_CODE_ARRAY:
            addr = self.address_
        else:
            raise error('Trying to read string with inappropriate type `%s\'.' % t)
        data = _sim.mem.cstring(addr)
        return data.decode(encoding, errors)

    def lazy_string(self, *a, **kw):
        return self.string()

    def fetch_lazy(self):
        pass


# ----------------------------------------------------------------------------- frames, threads

class Frame:
    def __init__(self, name, variables, older=None):
        self._name = name
        self.vars = variables
        self._older = older

    def name(self):
        return self._name

    def function(self):
        return self._name

    def older(self):
        return self._older

    def newer(self):
        return None

    def is_valid(self):
        return True

    def read_var(self, name, block=None):
        if name not in self.vars:
            raise ValueError("Variable '%s' not found." % name)
        return self.vars[name]


class Thread:
    """gdb.InferiorThread. Like the real one it goes invalid when its thread exits (every attribute then raises
    RuntimeError), and global numbers are never handed out twice: a later thread in the same simulated slot is numbered
    slot + 10 * (exits so far)."""

    def __init__(self, num):
        self._num = num
        self._gen = getattr(_sim, 'thread_gen', {}).get(num, 0)

    def is_valid(self):
        return getattr(_sim, 'thread_gen', {}).get(self._num, 0) == self._gen

    def _n(self):
        if not self.is_valid():
            raise RuntimeError('Thread no longer exists.')
        return self._num + 10 * self._gen

    global_num = property(lambda self: self._n())
    num = property(lambda self: self._n())
    ptid = property(lambda self: (1, self._n(), 0))


def selected_frame():
    if _sim.frame is None:
        raise error('No frame is currently selected.')
    return _sim.frame


def selected_thread():
    if getattr(_sim, 'on_selected_thread', None) is not None:
        _sim.on_selected_thread()
    return Thread(_sim.thread)


def selected_inferior():
    return None


# ----------------------------------------------------------------------------- breakpoints and commands

class Breakpoint:
    def __init__(self, spec, type=BP_BREAKPOINT, wp_class=None, internal=False, temporary=False, qualified=False, **kw):
        self.location = spec
        self.internal = internal
        self.qualified = qualified
        self.enabled = True
        self.number = len(_sim.breakpoints) + 1
        _sim.breakpoints.append(self)

    def stop(self):
        return True

    def is_valid(self):
        return True

    def delete(self):
        if self in _sim.breakpoints:
            _sim.breakpoints.remove(self)


class Command:
    def __init__(self, name, command_class=COMMAND_DATA, completer_class=None, prefix=False):
        self.name_ = name
        _sim.commands[name] = self

    def invoke(self, arg, from_tty):
        pass

    def dont_repeat(self):
        pass


def breakpoints():
    return tuple(_sim.breakpoints)


def execute(command, from_tty=False, to_string=False):
    return _sim.execute(command)


def write(text, stream=STDOUT):
    _sim.write(text, stream)


def flush(stream=STDOUT):
    pass


_FIXED_RE = re.compile(r'^\(double\)\(void\*\)\(\(\(1023LL \+ 44LL\) << 52\) \+ \(1LL << 51\) \+ (-?\d+)\) - \(3LL << 43\)$')


def parse_and_eval(expr, global_context=False):
    m = _FIXED_RE.match(expr.strip())
    if not m:
        # anything else is refused so that a change of the expression is noticed, not silently mis-evaluated
        raise error('fake gdb cannot evaluate: %s' % expr)
    v = int(m.group(1))
    i = ((1023 + 44) << 52) + (1 << 51) + v
    # real gdb 13 (x86-64): (double)(void*)<integer> re-interprets the 8 bytes as an IEEE double
    d = struct.unpack('<d', struct.pack('<q', i))[0]
    return _FloatValue(d - float(3 << 43))


class _FloatValue:
    def __init__(self, v):
        self.v = v
        self.type = Type(9, 'double', 8)

    def __float__(self):
        return self.v

    def __int__(self):
        return int(self.v)

    def __str__(self):
        return repr(self.v)


# ----------------------------------------------------------------------------- simulator hook

class _NoSim:
    def __getattr__(self, n):
        if n == 'mem':
            return Memory()
        raise error('no simulated inferior attached')


class SimState:
    def __init__(self):
        self.mem = Memory()
        self.frame = None
        self.thread = 1
        self.breakpoints = []
        self.commands = {}
        self.on_execute = None
        self.on_write = None
        self.on_selected_thread = None
        self.on_read = None
        self.thread_gen = {}

    def execute(self, command):
        if self.on_execute is not None:
            return self.on_execute(command)

    def write(self, text, stream):
        if self.on_write is not None:
            self.on_write(text, stream)


_sim = SimState()


def _attach(sim):
    global _sim
    _sim = sim
