"""Calibration of the fake gdb against the real one (thorough tier of C09; stub fidelity, not the
deciding step): the breakpoint-hit sequence of a finished fake session is emitted as a C program that
declares libwayland's structures and function names, compiled with gcc -g -O0 into a scratch directory,
and run under the real gdb with the real plugin; the lines the tool prints must be the same."""
import os
import re
import shutil
import subprocess
import tempfile

from . import rig
from . import printer as P

HEADER = r'''
#include <stdint.h>
#include <stddef.h>
#include <stdlib.h>
#include <string.h>
struct wl_interface;
struct wl_message { const char *name; const char *signature; const struct wl_interface **types; };
struct wl_interface { const char *name; int version; int method_count; const struct wl_message *methods;
                      int event_count; const struct wl_message *events; };
struct wl_object { const struct wl_interface *interface; const void *implementation; uint32_t id; };
struct wl_array { size_t size; size_t alloc; void *data; };
typedef int32_t wl_fixed_t;
union wl_argument { int32_t i; uint32_t u; wl_fixed_t f; const char *s; struct wl_object *o; uint32_t n;
                    struct wl_array *a; int32_t h; };
struct wl_list { struct wl_list *prev; struct wl_list *next; };
struct wl_proxy;
struct wl_closure { int count; const struct wl_message *message; uint32_t opcode; uint32_t sender_id;
                    union wl_argument args[20]; struct wl_list link; struct wl_proxy *proxy; struct wl_array extra[0]; };
struct wl_connection { char opaque[64]; };
struct wl_display;
struct wl_proxy { struct wl_object object; struct wl_display *display; void *queue; uint32_t flags; int refcount;
                  void *user_data; void *dispatcher; uint32_t version; const char * const *tag; struct wl_list queue_link; };
struct wl_display { struct wl_proxy proxy; struct wl_connection *connection; int last_error; int fd; };
struct wl_client { struct wl_connection *connection; void *source; void *display; void *display_resource; };
struct wl_signal { struct wl_list listener_list; };
struct wl_resource { struct wl_object object; void *destroy; struct wl_list link; struct wl_signal deprecated_destroy_signal;
                     struct wl_client *client; void *data; int version; void *dispatcher; };
volatile int sink;
__attribute__((noinline)) int serialize_closure(struct wl_closure *closure, uint32_t *buffer, size_t buffer_count) { sink++; return 0; }
__attribute__((noinline)) int wl_closure_send(struct wl_closure *closure, struct wl_connection *connection) { sink++; return serialize_closure(closure, 0, 0) + sink; }
__attribute__((noinline)) int wl_closure_queue(struct wl_closure *closure, struct wl_connection *connection) { sink++; return serialize_closure(closure, 0, 0) + sink; }
__attribute__((noinline)) void wl_closure_invoke(struct wl_closure *closure, uint32_t flags, struct wl_object *target, uint32_t opcode, void *data) { sink++; }
__attribute__((noinline)) void wl_closure_dispatch(struct wl_closure *closure, void *dispatcher, struct wl_object *target, uint32_t opcode) { sink++; }
__attribute__((noinline)) void dispatch_event(struct wl_display *display, struct wl_closure *closure, struct wl_object *target, int which) {
    sink++; if (which) wl_closure_dispatch(closure, 0, target, closure->opcode); else wl_closure_invoke(closure, 0, target, closure->opcode, 0); sink++; }
__attribute__((noinline)) int wl_client_connection_data(struct wl_client *client, struct wl_closure *closure, struct wl_object *target, int which) {
    sink++; if (which) wl_closure_dispatch(closure, 0, target, closure->opcode); else wl_closure_invoke(closure, 0, target, closure->opcode, 0); return sink; }
__attribute__((noinline)) void wl_connection_destroy(struct wl_connection *connection) { sink++; }
'''


def cstr(b):
    if b is None:
        return '0'
    if isinstance(b, str):
        b = b.encode('utf-8', 'surrogateescape')
    return '"' + ''.join('\\%03o' % x for x in b) + '"'


def emit_c(sim):
    w = sim.world
    decl = []
    init = []
    body = []
    iface_id = {}

    def iface(name):
        if name in iface_id:
            return iface_id[name]
        k = len(iface_id)
        iface_id[name] = k
        model = w.proto.get(name)
        reqs = model.requests if model else []
        evs = model.events if model else []
        decl.append('static struct wl_interface IF%d;' % k)
        for tag, lst in (('R', reqs), ('E', evs)):
            if not lst:
                continue
            decl.append('static struct wl_message IF%d%s[%d];' % (k, tag, len(lst)))
            for mi, m in enumerate(lst):
                sig = m.signature()
                if name == 'wl_registry' and m.name == 'bind':
                    sig = 'usun'
                    types = [None] * 4
                else:
                    types = [(a.interface if a.kind in 'on' and a.interface else None) for a in m.args]
                decl.append('static const struct wl_interface *IF%d%s%dT[%d];' % (k, tag, mi, max(1, len(types))))
                for ti, t in enumerate(types):
                    if t is not None:
                        init.append('IF%d%s%dT[%d] = &IF%d;' % (k, tag, mi, ti, iface(t)))
                init.append('IF%d%s[%d].name = %s; IF%d%s[%d].signature = %s; IF%d%s[%d].types = IF%d%s%dT;' % (
                    k, tag, mi, cstr(m.name), k, tag, mi, cstr(sig), k, tag, mi, k, tag, mi))
        init.append('IF%d.name = %s; IF%d.version = %d; IF%d.method_count = %d; IF%d.event_count = %d;' % (
            k, cstr(name), k, model.version if model else 1, k, len(reqs), k, len(evs)))
        if reqs:
            init.append('IF%d.methods = IF%dR;' % (k, k))
        if evs:
            init.append('IF%d.events = IF%dE;' % (k, k))
        return k

    objs = {}

    def obj(slot, inc):
        key = inc.key()
        if key in objs:
            return objs[key]
        n = 'O%d' % len(objs)
        objs[key] = n
        if slot.side == 'client':
            decl.append('static struct wl_proxy %s;' % n)
            body.append('%s.object.interface = &IF%d; %s.object.id = %uu;' % (n, iface(inc.iface), n, inc.id))
        else:
            decl.append('static struct wl_resource %s;' % n)
            body.append('%s.object.interface = &IF%d; %s.object.id = %uu; %s.client = &CL%d;' % (n, iface(inc.iface), n, inc.id, n, inc.conn))
        return n

    conn_decl = set()
    ncl = 0
    narr = 0
    for h in sim.hits:
        if h['kind'] == 'destroy':
            if h.get('conn') is not None and h['conn'] in conn_decl:
                body.append('wl_connection_destroy(CONN%d); free(CONN%d);' % (h['conn'], h['conn']))
            else:
                body.append('{ struct wl_connection *c = malloc(sizeof *c); wl_connection_destroy(c); free(c); }')
            continue
        cl = h['closure']
        slot = sim.slots[h['slot']]
        ci = cl.conn
        if ci not in conn_decl:
            conn_decl.add(ci)
            decl.append('static struct wl_connection *CONN%d; static struct wl_display DSP%d; static struct wl_client CL%d;' % (ci, ci, ci))
            body.append('CONN%d = malloc(sizeof(struct wl_connection)); DSP%d.connection = CONN%d; CL%d.connection = CONN%d;' % (ci, ci, ci, ci, ci))
            body.append('DSP%d.proxy.object.interface = &IF%d; DSP%d.proxy.object.id = 1;' % (ci, iface('wl_display'), ci))
            if slot.side == 'client':
                objs[w.conns[ci].display.key()] = 'DSP%d.proxy' % ci
        k = iface(cl.target.iface)
        c = 'C%d' % ncl
        ncl += 1
        body.append('{ struct wl_closure %s; memset(&%s, 0xAA, sizeof %s); %s.count = %d; %s.message = &IF%d%s[%d]; %s.opcode = %d; %s.sender_id = %uu; %s.proxy = 0;'
                    % (c, c, c, c, len(cl.args), c, k, 'E' if cl.is_event else 'R', cl.opcode, c, cl.opcode, c, cl.target.id, c))
        received = not h['sent']
        for i, a in enumerate(cl.args):
            kd = a.kind
            if kd in 'ih':
                body.append('%s.args[%d].%s = %d;' % (c, i, kd, a.value))
            elif kd == 'u':
                body.append('%s.args[%d].u = %uu;' % (c, i, a.value))
            elif kd == 'f':
                body.append('%s.args[%d].f = (int32_t)%dLL;' % (c, i, a.value))
            elif kd == 's':
                body.append('%s.args[%d].s = %s;' % (c, i, cstr(a.value)))
            elif kd == 'o':
                if a.value is None:
                    body.append('%s.args[%d].o = 0;' % (c, i))
                else:
                    body.append('%s.args[%d].o = (struct wl_object *)&%s;' % (c, i, obj(slot, a.value)))
            elif kd == 'n':
                if received and slot.side == 'client':
                    body.append('%s.args[%d].o = (struct wl_object *)&%s;' % (c, i, obj(slot, a.value)))
                else:
                    body.append('%s.args[%d].n = %uu;' % (c, i, a.value.id))
            elif kd == 'a':
                data = a.value or b''
                decl.append('static unsigned char AR%d[%d] = {%s};' % (narr, max(1, len(data)), ','.join(str(x) for x in data) or '0'))
                decl.append('static struct wl_array WA%d = { %d, %d, AR%d };' % (narr, len(data), max(16, len(data)), narr))
                body.append('%s.args[%d].a = &WA%d;' % (c, i, narr))
                narr += 1
        if h['sent']:
            fn = 'wl_closure_send' if sim.rng_choice(['wl_closure_send', 'wl_closure_queue'], cl) == 'wl_closure_send' else 'wl_closure_queue'
            body.append('%s(&%s, CONN%d); }' % (fn, c, ci))
        else:
            which = 0 if sim.rng_choice(['wl_closure_invoke', 'wl_closure_dispatch'], cl) == 'wl_closure_invoke' else 1
            tgt = obj(slot, cl.target)
            if slot.side == 'client':
                body.append('dispatch_event(&DSP%d, &%s, (struct wl_object *)&%s, %d); }' % (ci, c, tgt, which))
            else:
                body.append('wl_client_connection_data(&CL%d, &%s, (struct wl_object *)&%s, %d); }' % (ci, c, tgt, which))
    return HEADER + '\n'.join(decl) + '\nint main(void) {\n' + '\n'.join(init) + '\n' + '\n'.join(body) + '\nreturn 0; }\n'


TIME_RE = re.compile(r'^\s*-?\d+\.\d{4} ')
LIFE_RE = re.compile(r' after -?\d+\.\d{4}s')
SEP_RE = re.compile(r'^    ───┤ .* ├───$')


def tool_lines(lines):
    """the lines the tool itself printed, with times removed"""
    out = []
    for l in lines:
        if SEP_RE.match(l):
            continue
        if TIME_RE.match(l) or l.startswith(('New ', 'Closed ', 'Warning: ', 'Error: ', '    Stopped at ')):
            out.append(LIFE_RE.sub(' after Ts', TIME_RE.sub('T ', l)))
    return out


def calibrate(sim):
    """-> list of problems (empty = the fake and the real gdb made the tool print the same lines)"""
    tmp = tempfile.mkdtemp(prefix='wdgdb-', dir=os.environ.get('TMPDIR', '/tmp'))
    try:
        src = os.path.join(tmp, 'prog.c')
        open(src, 'w').write(emit_c(sim))
        r = subprocess.run(['gcc', '-g', '-O0', '-w', '-o', os.path.join(tmp, 'prog'), src], capture_output=True, text=True)
        if r.returncode != 0:
            return ['generated C does not compile: ' + r.stderr[-800:]]
        main = os.path.join(rig.REPO, 'main.py')
        call = 'python import sys; sys.argv = ["%s", "-C", "--supress"]; exec(open("%s").read())' % (main, main)
        env = dict(os.environ, PYTHONPATH=rig.REPO, PYTHONDONTWRITEBYTECODE='1')
        env.pop('PYTHONHASHSEED', None)
        g = subprocess.run(['gdb', '-q', '-batch', '-ex', 'set debuginfod enabled off', '-ex', 'set confirm off', '-ex', call,
                            '-ex', 'run', os.path.join(tmp, 'prog')], capture_output=True, text=True, env=env, timeout=300, cwd=tmp)
        real = tool_lines((g.stderr + '\n' + g.stdout).split('\n'))
        fake = tool_lines([p for s, k, p in sim.rec.events if k == 'out'])
        if 'Traceback' in g.stderr or 'Error occurred in Python' in g.stderr:
            return ['python error under real gdb: ' + g.stderr[-1500:]]
        if real != fake:
            n = 0
            while n < min(len(real), len(fake)) and real[n] == fake[n]:
                n += 1
            return ['line %d differs: real gdb %r, fake gdb %r (%d vs %d lines)' % (
                n, real[n] if n < len(real) else None, fake[n] if n < len(fake) else None, len(real), len(fake))]
        return []
    finally:
        shutil.rmtree(tmp, ignore_errors=True)
