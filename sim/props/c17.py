"""C17 — colour is presentation only (replay differential: the same session with one configuration bit flipped)."""
import re
import random

from .. import logworld as L
from .. import world as W
from .. import refmatch as R
from .. import session as S
from .. import faults as F
from .. import oracles
from .. import rig
from . import common
from . import c06

ID = 'C17'
LEVEL = 'exploration'
RUNS = {'quick': 4000}
BUDGET_S = {'thorough': 600}
CMD_WEIGHTS = {'filter': 4, 'breakpoint': 3, 'list': 5, 'connection': 3, 'other': 4}
SGR = re.compile('\x1b\\[[0-9;]*m')      # independent of core.util.no_color
RULE = ('one evaluation = one simulated session (traffic, commands, transport faults drop/dup/swap/tear/garbage/id0 on the log to '
        'reach rarely printed constructs: unresolved objects, Unknown arguments, errors, warnings, "None of the N messages") '
        'executed twice with exactly the same schedule, once with colour and once without; then every matcher string, object label '
        'and help-text command the coloured session printed is pasted back, escapes included, into filter/list/breakpoint/matcher '
        'there while the plain text is typed in the plain session. Non-trivial = the coloured output contains at least one escape '
        'sequence and at least one rare construct (error line, unresolved object, Unknown argument, empty listing) was printed; '
        'distinct = hash of the plain output')
REAL = c06.REAL + ['core.util.color / no_color']
STUBBED = c06.STUBBED
ASSUMPTIONS = ['input chatter is ESC-free, so any ESC in the plain run is the tool\'s own',
               'nothing in this property depends on a schedule; the simulator contributes exact replay and fault injection']
SHRINK_FIELDS = ['intents', 'faults']


def generate(seed, tier, index):
    sc = c06.gen_session(seed, tier, CMD_WEIGHTS, ncmd_range=(2, 9), initial_filter_p=0.3, pid=ID)
    rng = random.Random('%d/gen17' % seed)
    if rng.random() < 0.3:
        # enum-labelled arguments (wl_shm.format) early in the session, so that label matchers have something to select
        head = [['act', 0, 'shm', k % 4, 0, rng.randrange(1 << 30)] for k in range(rng.randint(4, 7))]
        sc['intents'][0:0] = head
        sc['intents'] += [['cmd', rng.choice(['list (argb8888)', 'list (xrgb8888)', 'list wl_shm.format(argb8888)', 'list (format=xrgb8888)']), {'t': 'other'}]]
    if rng.random() < 0.15:
        # two accumulated patterns that print alike without colour but not with it: a wildcard `*` is painted, a quoted "*" is not
        st0 = L.build_stream(sc, rig.REPO)
        argnames = sorted({a.name for c in st0.world.conns for m_ in c.msgs for a in m_.args if a.name})
        if argnames:
            n_ = rng.choice(argnames)
            pair = [['cmd', 'filter (%s=*)' % n_, {'t': 'other'}], ['cmd', 'filter (%s="*")' % n_, {'t': 'other'}]]
            if rng.random() < 0.5:
                pair.reverse()
            pos = rng.randint(0, len(sc['intents']))
            sc['intents'][pos:pos] = pair
            sc['intents'] += [['cmd', 'filter', {'t': 'other'}], ['cmd', 'list', {'t': 'other'}]]
            sc['config']['star_collision'] = True
    sc['config']['suppress'] = rng.random() < 0.2
    sc['config']['colour_first'] = rng.random() < 0.5
    if rng.random() < 0.15:
        m = R.gen_matcher(rng, R.Vocab(L.build_stream(sc, rig.REPO), {0: 'A'}), p_const=0.0)
        sc['config']['break'] = R.render(m)
        sc['config']['break_model'] = m
    if rng.random() < 0.12:
        # the program's own terminal colours in its own output (passthrough lines): with colour disabled the tool passes them
        # on and adds none of its own
        sc['config']['esc_chatter'] = [[rng.randrange(1000), rng.randrange(1000)] for _ in range(rng.randint(1, 5))]
    sc['faults'] = F.gen_faults(rng, rng.choice([0, 1, 2, 3, 5]), ['drop', 'dup', 'swap', 'tear', 'garbage', 'id0', 'drop', 'tear'])
    return sc


def faulty_steps(sc, st, counts):
    lines = [s[1] for s in st.steps if s[0] == 'line']
    new = F.apply_line_faults(lines, sc.get('faults') or [], counts)
    new = [SGR.sub('', l).replace('\x1b', '?') for l in new]
    # re-interleave commands after the same number of lines (clamped)
    steps = []
    li = 0
    seen = 0
    for s in st.steps:
        if s[0] == 'line':
            seen += 1
            if li < len(new):
                steps.append(('line', new[li]))
                li += 1
        elif s[0] == 'cmd':
            steps.append(('cmd', s[1]))
    while li < len(new):
        # extra lines (dup/garbage) go before the trailing commands
        pos = len(steps)
        while pos > 0 and steps[pos - 1][0] == 'cmd':
            pos -= 1
        steps.insert(pos, ('line', new[li]))
        li += 1
    return steps


def run_one(sc, steps, color):
    cfg = sc['config']
    rec = rig.Recorder()
    res = rig.run_component(steps, filter_text=cfg.get('filter'), break_text=cfg.get('break'),
                            show_unprocessed=not cfg.get('suppress', False), color=color, rec=rec)
    return res


def streams(rec, start=0):
    return [(k, p) for s, k, p in rec.events[start:] if k in ('out', 'err')]


ANY_ESC = re.compile('\x1b(?:\\[[0-9;]*[A-Za-z])?')


def compare(plain, colored, V, sig, what, strip_plain=False):
    if strip_plain:
        # the input carries escape sequences of its own (program output passed through): both sides are compared without them;
        # what the plain run may contain is judged separately (`escape-in-plain`)
        plain = [(k, SGR.sub('', p)) for k, p in plain]
    if len(plain) != len(colored):
        V.add(sig, what, 'plain session wrote %d lines, coloured %d; first difference %r' % (len(plain), len(colored), first_diff(plain, colored)))
        return False
    for (k1, p1), (k2, p2) in zip(plain, colored):
        if k1 != k2 or p1 != SGR.sub('', p2):
            V.add(sig, what, 'coloured output minus escapes differs from plain output:\n  plain   %r %r\n  stripped %r %r\n  coloured %r' % (k1, p1, k2, SGR.sub('', p2), p2))
            return False
    return True


def first_diff(a, b):
    for i, (x, y) in enumerate(zip(a, b)):
        if x[0] != y[0] or x[1] != SGR.sub('', y[1]):
            return (i, x, y)
    return (min(len(a), len(b)), None, None)


TOKEN_COLORED = re.compile('(?:\x1b\\[[0-9;]*m)*[A-Za-z_][A-Za-z_0-9]*(?:\x1b\\[[0-9;]*m)*@\\d+[a-z]+(?:\x1b\\[[0-9;]*m)*')
MATCHER_PREFIXES = ['Only showing messages that match ', 'Breaking on messages that match: ', 'Output filter: ',
                    'Breakpoint matcher: ', 'Unsimplified: ', '  Simplified: ', '    Reparsed: ']


def harvest(colored_events, rng, limit):
    frags = []
    for k, p in colored_events:
        if k != 'out':
            continue
        for pre in MATCHER_PREFIXES:
            if SGR.sub('', p).startswith(pre) and p.startswith(pre):
                frags.append(('matcher', p[len(pre):]))
        if L.MSG_RE.match(SGR.sub('', p)):
            for m in TOKEN_COLORED.finditer(p):
                t = m.group(0)
                # the label part only ("@3a" with its escapes) -> "3a"
                at = t.index('@')
                frags.append(('label', t[at + 1:]))
                frags.append(('typed', t[:at]))
        if SGR.sub('', p).startswith('Switched to connection ') and p.startswith('Switched to connection '):
            frags.append(('conn', p[len('Switched to connection '):]))
        if '$ ' in SGR.sub('', p) and '\x1b' in p:
            i = p.index('$ ')
            frags.append(('command', p[i + 2:]))
    rng.shuffle(frags)
    out = []
    seen = set()
    for f in frags:
        if f not in seen and '\n' not in f[1]:
            seen.add(f)
            out.append(f)
    return out[:limit]


def execute(sc):
    V = common.Viol()
    st = L.build_stream(sc, rig.REPO)
    steps = faulty_steps(sc, st, V.counters)
    esc_lines = []
    for pos, k in sc['config'].get('esc_chatter') or []:
        text = W.ESC_CHATTER[k % len(W.ESC_CHATTER)]
        at = pos % (len(steps) + 1)
        steps.insert(at, ('line', text))
    esc_flavour = bool(sc['config'].get('esc_chatter'))
    if esc_flavour:
        esc_lines = [s[1] for s in steps if s[0] == 'line' and '\x1b' in s[1]]
        V.bump('fault_program_output_with_own_colour_sequences', len(esc_lines))
    # which of the two sessions runs first is part of the scenario (anything remembered between sessions in one
    # process - a cached rendering, say - must not leak from one colour setting into the other)
    if sc['config'].get('colour_first'):
        rc = run_one(sc, steps, True)
        rp = run_one(sc, steps, False)
    else:
        rp = run_one(sc, steps, False)
        rc = run_one(sc, steps, True)
    ctl_p = rp.controller if hasattr(rp, 'controller') else None
    ctl_c = rc.controller if hasattr(rc, 'controller') else None
    plain = streams(rp.rec)
    colored = streams(rc.rec)
    if (rp.exception is None) != (rc.exception is None):
        V.add('C17/stripped-differs', 'exception', 'one session raised: plain %r coloured %r' % (rp.traceback, rc.traceback))
    ok = compare(plain, colored, V, 'C17/stripped-differs', 'session', strip_plain=esc_flavour)
    if esc_flavour:
        want = [] if sc['config'].get('suppress') else [m for l in esc_lines for m in ANY_ESC.findall(l)]
        got = [m for k, p in plain for m in ANY_ESC.findall(p)]
        if got != want:
            V.add('C17/escape-in-plain', 'own-sequences', 'with colour disabled the output holds the escape sequences %r; the input '
                  'lines passed through hold %r: the rest is the tool\'s own' % (got, want))
    else:
        for k, p in plain:
            if '\x1b' in p:
                V.add('C17/escape-in-plain', 'session', 'escape sequence in --no-color output: %r' % p)
                break
    n_esc = sum(1 for k, p in colored if '\x1b' in p)
    rare = 0
    for k, p in plain:
        if k == 'err':
            rare += 1
            V.bump('probe_error_or_warning_line')
        elif 'unresolved ' in p:
            rare += 1
            V.bump('probe_unresolved_object')
        elif 'Unknown: ' in p:
            rare += 1
            V.bump('probe_unknown_argument')
        elif 'None of the' in p or 'No messages yet' in p:
            rare += 1
            V.bump('probe_empty_listing')
        elif '.destroyed after' in p:
            V.bump('probe_destroyed_annotation')
        elif p.startswith(L.PASS_PREFIX):
            V.bump('probe_passthrough_line')
        elif ':' in p and '&' in p:
            V.bump('probe_enum_labels_maybe')
    # paste-back
    pasted = 0
    if ok and rp.exception is None and rc.exception is None and not esc_flavour:
        rng = random.Random('%d/paste' % sc['seed'])
        for kind, frag in harvest(colored, rng, 12):
            plain_frag = SGR.sub('', frag)
            if kind == 'command':
                cmds = [(frag, plain_frag)]
            elif kind == 'conn':
                cmds = [('connection ' + frag, 'connection ' + plain_frag)]
            elif kind == 'matcher':
                verb = rng.choice(['filter', 'list', 'breakpoint', 'matcher'])
                cmds = [(verb + ' ' + frag, verb + ' ' + plain_frag)]
            else:
                verb = rng.choice(['list', 'matcher', 'filter'])
                cmds = [(verb + ' ' + frag, verb + ' ' + plain_frag)]
            for cc, pc in cmds:
                if '\x1b' not in cc:
                    continue
                a0 = len(rp.rec.events)
                b0 = len(rc.rec.events)
                try:
                    ctl_p.process_command(pc)
                    ctl_c.process_command(cc)
                except Exception as e:  # noqa
                    V.add('C17/pasteback', 'exception', 'pasting %r raised %r' % (cc, e))
                    break
                pasted += 1
                V.bump('pasted_' + kind)
                if not compare(streams(rp.rec, a0), streams(rc.rec, b0), V, 'C17/pasteback', kind):
                    V.list[-1]['detail'] = 'pasted %r (plain session typed %r): ' % (cc, pc) + V.list[-1]['detail']
                    break
    nontrivial = n_esc > 0 and rare > 0
    key = rig.hashlib.sha256(repr(plain).encode('utf-8', 'backslashreplace')).hexdigest()
    sim_us = st.world.now - st.world.epoch_us
    return {'violations': V.list, 'counters': V.counters, 'nt_keys': [key] if nontrivial else [], 'inter_key': key,
            'states': [], 'digest': rp.rec.digest() + rc.rec.digest(), 'canon': rp.rec.digest(True) + rc.rec.digest(True),
            'sim_us': sim_us, 'evals': 2,
            'sample': {'commands': [s[1] for s in steps if s[0] == 'cmd'][:6], 'faults': sc.get('faults'), 'pasted': pasted,
                       'coloured_line': next((p for k, p in colored if '\x1b' in p and '@' in p), None)}}
