"""C12 — filter/breakpoint commands accumulate alternatives and exclusions."""
from .. import session as S
from . import common
from . import c06

ID = 'C12'
LEVEL = 'exploration'
RUNS = {'quick': 6400}
BUDGET_S = {'thorough': 600}
WANT = {'C12'}
CMD_WEIGHTS = {'filter': 8, 'breakpoint': 6, 'list': 3, 'connection': 1, 'other': 1}
RULE = ('one evaluation = one simulated session (component rig) with 1-8 filter/breakpoint commands (alternatives only, '
        'exclusions only, both, `*`, `!`, malformed texts) interleaved with streaming traffic; after every command the reference '
        'accumulated state (constant * / constant ! / alternatives+exclusions) is used to judge every later message (shown? '
        'Stopped-at?) and every no-argument `list` over the recorded history. Non-trivial = at least two accumulating commands on '
        'the same matcher; distinct = hash of (command texts, positions, interleaving)')
REAL = c06.REAL
STUBBED = c06.STUBBED
ASSUMPTIONS = c06.ASSUMPTIONS + ['one deliberate don\'t-care: an alternative present when a `*` swallowed the list may or may not '
                                 'survive the next specific alternative (counted as probe_absorbed_alternatives)']
SHRINK_FIELDS = ['intents']


GDB_LANES = c06.GDB_LANES


def generate(seed, tier, index):
    if c06.in_gdb_world():
        return c06.gen_gdb_session(seed, tier, CMD_WEIGHTS, ID, ncmd_range=(1, 8), initial_filter_p=0.3, closing=False)
    return c06.gen_session(seed, tier, CMD_WEIGHTS, ncmd_range=(1, 8), initial_filter_p=0.3, pid=ID)


def execute(sc):
    if sc['config'].get('world') == 'gdb':
        st, res, tr, V0, sim = c06.run_and_judge_gdb(sc, {'C12', 'C11'}, ID)
    else:
        st, res, tr, V0 = c06.run_and_judge(sc, {'C12', 'C11'}, ID)
    V = common.Viol()
    V.counters = V0.counters
    V.states = V0.states
    for v in V0.list:
        if v['sig'].startswith('C12/'):
            V.list.append(v)
        elif v['sig'].startswith('C11/content') or v['sig'].startswith('C11/last-n'):
            # no-argument `list` re-evaluates the accumulated filter over the whole recorded history
            V.add('C12/must-selected', 'list-reevaluation', v['detail'])
    n_acc = sum(1 for it in sc['intents'] if it[0] == 'cmd' and it[2].get('t') in ('filter', 'breakpoint') and it[2].get('m'))
    return c06.finish(sc, st, res, V, n_acc >= 2)
