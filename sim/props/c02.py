"""C02 — every object mention attributed to the right incarnation of its id."""
import random

from .. import logworld as L
from .. import world as W
from .. import rig
from .. import oracles
from . import common

ID = 'C02'
LEVEL = 'exploration'
RUNS = {'quick': 6400}
BUDGET_S = {'thorough': 600}
RULE = ('one evaluation = one simulated session: 1-4 simulated Wayland connections (client- and server-side logs, all printer '
        'dialects) whose ids are allocated the way libwayland\'s wl_map does (client ids reused LIFO only after delete_id was '
        'delivered, server-range ids reused freely), interleaved by the seeded scheduler and run through the real tool '
        '(main.main file/pipe mode or the component rig). Non-trivial = the history re-uses at least one id (some id has >= 2 '
        'incarnations) ; distinct = distinct hash of the per-connection table shape (id class, incarnations per id, alive count) '
        'plus interleaving signature. No transport faults: the quantifier is well-formed histories')
REAL = ['main.main / Parser / ConnectionManager / ConnectionImpl / Controller / core.wl.*', 'io text stack']
STUBBED = ['log bytes (SimRawIO)', 'output streams (recording)', 'input()', 'XML parse results memoised per worker']
ASSUMPTIONS = ['id allocation model of libwayland (wl_map) and request/delete_id handshake (sim/world.py)',
               'printer model (sim/printer.py)', 'messages restricted to those the shipped protocol XML lists, plus all '
               'messages of synthetic/unknown interfaces (protocol-version skew is outside the property)']
SHRINK_FIELDS = ['intents']
DEEP_EVERY = {'quick': 800, 'thorough': 200}     # run indexes with a > 702-incarnation history (three-letter labels)


def gen_common(seed, tier, index, profile_choices=('mixed', 'churn', 'objects', 'objects', 'longchurn'), maxconn=4, deep_ok=False):
    rng = random.Random('%d/gen' % seed)
    nconn = rng.choice([1, 2, 2, 3, 4][:maxconn + 1])
    big = rng.random() < (0.3 if tier == 'thorough' else 0.06)
    total = rng.randint(120, 400) if big else rng.randint(10, 120)
    per = []
    deep = deep_ok and index % DEEP_EVERY[tier] == 1
    if deep:
        # one id recycled more than 702 times: three-letter incarnation labels (`aaa` is index 702); a second, short
        # connection keeps the interleaving non-trivial
        nconn = rng.choice([1, 2])
        per.append(L.gen_deep_intents(seed, 0))
        if nconn == 2:
            per.append(L.gen_conn_intents(seed, 1, rng.randint(5, 60), rng.choice(['mixed', 'churn'])))
    for c in range(nconn if not deep else 0):
        per.append(L.gen_conn_intents(seed, c, max(2, total // nconn), rng.choice(profile_choices)))
    intents = L.interleave(rng, per)
    if deep_ok and index % 9 == 4:
        # ill-formed on purpose (a log that starts late / a stray line): a few messages on client ids nothing has created yet,
        # which the allocator hands out later - everything about the real objects must be as if those lines were not there
        r5 = random.Random('%d/stray' % seed)
        out = []
        for it in intents:
            if it[0] == 'act' and r5.random() < 0.08:
                out.append(['act', it[1], 'orphan_future', r5.randrange(1 << 30), r5.randrange(1 << 30), r5.randrange(1 << 30)])
            out.append(it)
        intents = out
    cfg = {
        'nconn': nconn,
        'sides': [rng.choice(['client', 'server']) for _ in range(nconn)],
        'dialect': L.pick_dialect(rng, nconn),
        'epoch_us': rng.choice([0, rng.randrange(1 << 32)]),
        'mode': rng.choice(['file', 'pipe']),
        'rig': rng.choice(['main', 'component']),
        'chunks': L.gen_chunks(rng),
        'suppress': False,
    }
    return {'prop': ID, 'seed': seed, 'config': cfg, 'intents': intents}


GDB_LANES = (12, 13, 14, 15)     # a quarter of the runs: the same histories arriving as libwayland closures under the GDB plugin


def in_gdb_world():
    import os
    return os.environ.get('VERIF_WORLD') == 'gdb'


def gen_gdb(seed, tier, pid):
    from . import c15
    rng = random.Random('%d/gen-gdb' % seed)
    nslots = rng.choice([1, 2, 2, 3])
    n = rng.randint(8, 80 if tier == 'quick' else 200)
    intents = []
    for s_ in range(nslots):
        if rng.random() < 0.7:
            intents.append(['act', s_, 'get_registry', 0, 0, rng.randrange(1 << 30), 0])
    rng.shuffle(intents)
    prof = L.KIND_PROFILES[rng.choice(['mixed', 'churn', 'objects', 'objects'])]
    for _ in range(n):
        th = rng.randint(1, 3) if rng.random() < 0.06 else 0
        intents.append(['act', rng.randrange(nslots), L.weighted(rng, prof), rng.randrange(1 << 30), rng.randrange(1 << 30),
                        rng.randrange(1 << 30), th])
        if rng.random() < 0.5:
            intents.append(['tick', L.gen_tick(rng)])
    cfg = {'world': 'gdb', 'nslots': nslots, 'sides': [rng.choice(['client', 'server']) for _ in range(nslots)], 'synth': True,
           'suppress': True}
    return {'prop': pid, 'seed': seed, 'config': cfg, 'intents': intents}


def observe_gdb(sc):
    from .. import gdbworld
    from . import c15, c18
    sim = gdbworld.GdbSim(sc)
    sim.run()
    st = c15.pseudo_stream(sim)
    names = {ci: W.letters(k, True) for k, ci in enumerate(sim.order)}
    exc = sim.start_exception
    for h in sim.hits:
        if h['exception'] and not exc:
            exc = h['exception']
    items = [L.classify(s, p) for s, k, p in sim.rec.events if k == 'out']
    return sim, st, names, items, exc


def finish_gdb(sc, sim, st, V):
    shape, reused = table_shape(st)
    inter = ''.join(str(it.conn) for _, it in st.lines)
    V.bump('gdb_world_sessions')
    V.bump('messages', len(st.lines))
    return {'violations': V.list, 'counters': V.counters, 'nt_keys': [repr(shape) + inter[:64]] if reused else [], 'inter_key': inter,
            'states': [repr(s) for s in shape], 'digest': sim.rec.digest(), 'canon': sim.rec.digest(True), 'sim_us': sim.clock.now_us,
            'evals': 1, 'sample': {'config': sc['config'], 'messages': len(st.lines)}}


def generate(seed, tier, index):
    if in_gdb_world():
        return gen_gdb(seed, tier, ID)
    return gen_common(seed, tier, index, deep_ok=True)


def simplifications(sc):
    cfg = sc['config']
    for k, v in (('epoch_us', 0), ('chunks', [1 << 20]), ('rig', 'component'), ('mode', 'file')):
        if cfg.get(k) != v:
            c = dict(sc)
            c['config'] = dict(cfg)
            c['config'][k] = v
            yield c


def table_shape(st):
    shape = []
    reused = False
    for c in st.world.conns:
        cs = []
        for id_, lst in sorted(c.table.items()):
            cs.append(('s' if id_ >= W.SERVER_ID_START else 'c', len(lst), sum(1 for x in lst if x.alive)))
            if len(lst) > 1:
                reused = True
        shape.append(tuple(sorted(cs)))
    return tuple(shape), reused


def observe(sc):
    st = L.build_stream(sc, rig.REPO)
    if sc['config'].get('rig') == 'component':
        res, tr = common.observe_component(sc, st)
    else:
        res, tr = common.observe_file(sc, st)
    return st, res, tr


def probes(st, V):
    maxgen = 0
    for c in st.world.conns:
        for id_, lst in c.table.items():
            maxgen = max(maxgen, len(lst))
            if id_ >= W.SERVER_ID_START and len(lst) > 1:
                V.bump('probe_server_id_reused')
    if maxgen > 26:
        V.bump('probe_label_two_letters')
    if maxgen > 702:
        V.bump('probe_label_three_letters')
    if maxgen > 1:
        V.bump('probe_id_reused')
    for _, it in st.lines:
        if isinstance(it, W.Closure):
            if it.implicit_destroys:
                V.bump('probe_implicit_destroy_of_live_server_object')
            if it.name == 'bind' and it.creates and it.creates[0].iface not in st.world.known_names:
                V.bump('probe_bind_unknown_interface')
            if it.is_event and it.creates:
                V.bump('probe_event_created_object')
            if any(a.kind == 'o' and a.value is None for a in it.args):
                V.bump('probe_nil_object_arg')


def finish(sc, st, res, tr, V):
    shape, reused = table_shape(st)
    inter = ''.join(str(it.conn) for _, it in st.lines if isinstance(it, W.Closure))
    nmsg = sum(1 for _, it in st.lines if isinstance(it, W.Closure))
    V.bump('messages', nmsg)
    V.bump('rig_' + sc['config'].get('rig', 'main'))
    sample = {'config': sc['config'], 'messages': nmsg, 'first_lines': [t for t, _ in st.lines[:5]],
              'max_incarnations_of_one_id': max([len(l) for c in st.world.conns for l in c.table.values()] or [0])}
    return {'violations': V.list, 'counters': V.counters,
            'nt_keys': [repr(shape) + inter[:64]] if reused else [], 'inter_key': inter,
            'states': [repr(s) for s in shape], 'digest': res.rec.digest(), 'canon': res.rec.digest(canonical=True),
            'sim_us': st.world.now - st.world.epoch_us, 'evals': 1, 'sample': sample}


def execute(sc):
    if sc['config'].get('world') == 'gdb':
        from . import c18
        V = common.Viol()
        sim, st, names, items, exc = observe_gdb(sc)
        V.counters.update(sim.counters)
        if exc:
            V.add('C02/target', 'exception:' + c18.trigger_of(exc), exc[-1200:])
        else:
            oracles.check_attribution(st, sim.tracker, V, names=names, check_tokens_items=items)
        probes(st, V)
        return finish_gdb(sc, sim, st, V)
    st, res, tr = observe(sc)
    V = common.Viol()
    if res.exception is not None:
        V.add('C02/target', 'exception:' + type(res.exception).__name__, res.traceback[-1500:])
    else:
        items = L.out_items(res.rec)
        oracles.check_attribution(st, tr, V, check_tokens_items=items)
    probes(st, V)
    return finish(sc, st, res, tr, V)
