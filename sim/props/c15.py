"""C15 — GDB mode follows libwayland's connections as they come and go."""
import random

from .. import logworld as L
from .. import world as W
from .. import oracles
from .. import rig
from . import common
from . import c18

ID = 'C15'
WORLD = 'gdb'
LEVEL = 'exploration'
RUNS = {'quick': 6400}
BUDGET_S = {'thorough': 600}
RULE = ('one evaluation = one simulated GDB session: a fake inferior with 1-3 connection slots (client and server side) on 1-3 '
        'threads hits serialize_closure / wl_closure_invoke / wl_closure_dispatch / wl_connection_destroy in seeded order, with '
        'libwayland\'s structures laid out in fake memory; wl_connection structs come from a LIFO heap so addresses are re-used; '
        'destroys hit open, already closed and never-seen connections. The real plugin.py/extract.py run on the fake gdb module. '
        'Non-trivial = the sequence contains at least one destroy or a message from a foreign thread; distinct = hash of the event '
        'kind sequence (slot, message/destroy kind, thread)')
REAL = ['backends/gdb_plugin/plugin.py', 'backends/gdb_plugin/extract.py', 'main.main (GDB_PLUGIN mode)', 'ConnectionManager, Controller, core.*']
STUBBED = ['the gdb Python module and the debugged program (sim/fakegdb/gdb.py, sim/gdbworld.py)', 'time.perf_counter (simulator clock)']
ASSUMPTIONS = ['fake gdb implements exactly the API surface plugin.py/extract.py use; struct layouts are LP64 with natural alignment '
               '(extract.py derives offsets from Type.fields(), so internal consistency is what matters)',
               'an exception raised by stop() halts the inferior, as in real gdb']
SHRINK_FIELDS = ['intents']


def gen_gdb_traffic(rng, seed, nslots, n, p_destroy=0.08, threads=3, p_foreign_thread=0.05):
    intents = []
    for _ in range(n):
        r = rng.random()
        s = rng.randrange(nslots)
        if r < p_destroy:
            intents.append(['destroy', s, rng.randrange(4)])
        else:
            kind = L.weighted(rng, L.KIND_PROFILES['mixed'])
            th = 0
            if rng.random() < p_foreign_thread:
                th = rng.randint(1, threads)
            intents.append(['act', s, kind, rng.randrange(1 << 30), rng.randrange(1 << 30), rng.randrange(1 << 30), th])
            if th >= 2 and rng.random() < 0.5:
                intents.append(['thread_exit', th])      # the helper thread that handled this message is gone afterwards
        if rng.random() < 0.5:
            intents.append(['tick', L.gen_tick(rng)])
    return intents


def generate(seed, tier, index):
    rng = random.Random('%d/gen' % seed)
    nslots = rng.choice([1, 2, 2, 3])
    n = rng.randint(5, 80 if tier == 'quick' else 200)
    intents = []
    # connections mostly start with get_registry (that is what fixes the role)
    for s in range(nslots):
        if rng.random() < 0.7:
            intents.append(['act', s, 'get_registry', 0, 0, rng.randrange(1 << 30), 0])
    rng.shuffle(intents)
    calibrating = (tier == 'thorough' and index < 16)
    intents += gen_gdb_traffic(rng, seed, nslots, n, p_destroy=rng.choice([0.03, 0.08, 0.2]),
                               p_foreign_thread=0.0 if calibrating else 0.05)
    if rng.random() < 0.3:
        intents.insert(0, ['destroy', rng.randrange(nslots), 1])     # destroy before anything was seen
    if not calibrating and rng.random() < 0.25:
        # the user interrupts the program now and then, types a state-neutral wl command and resumes with gdb's own `continue`:
        # connection tracking must not notice
        for _ in range(rng.randint(1, 3)):
            intents.insert(rng.randint(0, len(intents)), ['cmd', rng.choice(['wlconnection', 'wl connection', 'wlhelp', 'wl list ~ 1', 'wl matcher x']),
                                                           {'t': 'other'}])
    cfg = {'nslots': nslots, 'sides': [rng.choice(['client', 'server']) for _ in range(nslots)], 'synth': True,
           'suppress': rng.random() < 0.5}
    if rng.random() < 0.12 and not (tier == 'thorough' and index < 16):
        # (not in the sessions that are replayed under the real gdb: the C program cannot press Ctrl-C at that instant)
        # one fault on the output side, placed where the statement still has something to say: Ctrl-C lands inside gdb.write of
        # a "Closed" notice (stop() raises, gdb halts, the user continues); later connections at that address must still work
        cfg['ctrl_c_in_closed_notice'] = rng.randint(0, 3)
    elif rng.random() < 0.12 and not (tier == 'thorough' and index < 16):
        # one fault on the input side: the k-th gdb.selected_thread() call raises (Ctrl-C arriving during the call, or the
        # thread having just exited).  The event it hits is lost - what the statement still demands afterwards is judged by
        # judge_after_input_fault(): a libwayland connection is announced once and closed only by its destruction
        cfg['fault_in_selected_thread'] = [rng.choice([0, 0, 1, 1, 2, 3, 4, 6]), rng.choice(['KeyboardInterrupt', 'error'])]
    elif rng.random() < 0.1 and not (tier == 'thorough' and index < 16):
        # the same kind of fault elsewhere: Ctrl-C lands inside the j-th read of the inferior's memory during the k-th message hit
        cfg['ctrl_c_in_memory_read'] = [rng.choice([0, 0, 1, 2, 3, 5, 8, 13]), rng.choice([0, 1, 2, 3, 5, 8, 12, 20, 30])]
    if tier == 'thorough' and index < 16:
        cfg['calibrate_real_gdb'] = True     # stub fidelity (only used when no foreign-thread message occurred: the C program is single-threaded)
    return {'prop': ID, 'seed': seed, 'config': cfg, 'intents': intents}


class FakeStream:
    pass


def pseudo_stream(sim):
    st = FakeStream()
    st.world = sim.world
    cls = sorted((h['closure'] for h in sim.hits if h['kind'] == 'message'), key=lambda c: c.gidx)
    st.lines = [(None, c) for c in cls]
    return st


def judge_after_input_fault(sc, sim, V):
    """One gdb API call raised inside a breakpoint's stop(): that event is lost (gdb prints the error and halts, the user
    continues).  The lost message makes names, roles and object tables undecidable, so only this is judged from there on:
    no other exception; a libwayland connection (one incarnation of an address) is announced at most once, by a message on
    it; no message ever produces a Closed notice; destroying an announced connection reports it closed, exactly once and
    under the name it was announced with, destroying any other is silent; names are unique and the open flags agree."""
    outs_by_seq = [(s, p) for s, k, p in sim.rec.events if k == 'out']
    fault_desc = sc['config'].get('fault_in_selected_thread') or ['memory-read'] + list(sc['config'].get('ctrl_c_in_memory_read') or [])
    announced = {}      # world connection index -> name
    closed = set()
    events = []
    fault_conn = None
    for h in sim.hits:
        outs = [L.classify(s, p) for s, p in outs_by_seq if h['seq_before'] <= s < h.get('seq_after', 1 << 60)]
        notices = [o.notice for o in outs if o.kind == 'notice']
        lost = h.get('injected_fault')
        if h['exception']:
            ci_ = h['closure'].conn if h['kind'] == 'message' else None
            if (h['kind'] == 'message' and ci_ == fault_conn and 'RuntimeError' in h['exception'].splitlines()[-1]
                    and ', in resolve' in h['exception']):
                # GDB mode refuses a message that names an object it has never seen (C10); on the connection whose message
                # the fault swallowed that is a consequence of the fault, not a further defect.  The message is lost too.
                V.bump('tolerated_unresolvable_object_after_lost_message')
                lost = True
            else:
                what = h.get('what') or ('message' if h['kind'] == 'message' else h['kind'])
                V.add('C15/exception', h['kind'] + ':' + what + ':' + c18.trigger_of(h['exception']),
                      'exception left stop() of %s (%s) after an injected fault (%r): %s' % (h['spec'], what, fault_desc, h['exception'][-1200:]))
                continue
        if h.get('injected_fault') and h['kind'] == 'message':
            fault_conn = h['closure'].conn
        ci = h['closure'].conn if h['kind'] == 'message' else h.get('conn')
        if h['kind'] == 'message':
            events.append('F' if h.get('injected_fault') else 'x' if lost else 'm')
            if any(n[0] == 'Closed' for n in notices):
                V.add('C15/open-first', 'closed-by-message', 'a message on connection #%d (%s) produced notices %r: only libwayland '
                      'destroying a connection closes it (fault %r)' % (ci, h['closure'].brief(), notices, fault_desc))
                break
            news = [n for n in notices if n[0] == 'New']
            if len(news) > 1 or (news and ci in announced):
                V.add('C15/open-first', 'announced-twice', 'connection #%d announced again by %s: %r (was %r)' % (ci, h['closure'].brief(), news, announced.get(ci)))
                break
            if news:
                announced[ci] = news[0][2]
            elif ci not in announced and not lost:
                V.add('C15/open-first', 'not-announced', 'message %s on a connection not yet announced produced no New notice' % h['closure'].brief())
                break
        else:
            events.append('d')
            if ci is not None and ci in announced and ci not in closed and h.get('what') == 'open':
                closed.add(ci)
                if notices != [('Closed', notices[0][1] if notices else None, announced[ci])]:
                    V.add('C15/close-on-destroy', 'after-input-fault', 'destroying announced connection %s produced notices %r' % (announced[ci], notices))
                    break
            elif notices and not (ci is not None and ci in announced and ci not in closed):
                V.add('C15/noisy-destroy', 'after-input-fault', 'destroying a connection that was never announced (or already closed) produced %r' % notices)
                break
            elif notices:
                closed.add(ci)
    if not V.list:
        got = sorted((c.name(), c.is_open()) for c in sim.cm.connections())
        want = sorted((nm, ci not in closed) for ci, nm in announced.items())
        if got != want:
            V.add('C15/close-on-destroy', 'connections()-after-input-fault', 'connections() = %r, expected %r' % (got, want))
    V.bump('sessions_judged_after_input_fault')
    key = ''.join(events) + '/st%r' % (fault_desc,)
    return {'violations': V.list, 'counters': V.counters, 'nt_keys': [key[:300]], 'inter_key': key[:400],
            'states': [], 'digest': sim.rec.digest(), 'canon': sim.rec.digest(True), 'sim_us': sim.clock.now_us, 'evals': 1,
            'sample': {'config': sc['config'], 'events': key[:120]}}


def execute(sc):
    from .. import gdbworld
    V = common.Viol()
    sim = gdbworld.GdbSim(sc)
    sim.run()
    V.counters.update(sim.counters)
    if sim.start_exception:
        V.add('C15/exception', 'startup', sim.start_exception[-1500:])
    if ((sc['config'].get('fault_in_selected_thread') is not None or sc['config'].get('ctrl_c_in_memory_read') is not None)
            and any(h.get('injected_fault') for h in sim.hits)):
        return judge_after_input_fault(sc, sim, V)
    names = {ci: W.letters(k, True) for k, ci in enumerate(sim.order)}
    seen_foreign = False
    events = []
    outs_by_seq = [(s, p) for s, k, p in sim.rec.events if k == 'out']
    first_done = set()
    for h in sim.hits:
        outs = [L.classify(s, p) for s, p in outs_by_seq if h['seq_before'] <= s < h.get('seq_after', 1 << 60)]
        notices = [o.notice for o in outs if o.kind == 'notice']
        if h.get('injected_fault'):
            events.append('F')
            continue           # the notice of this very event was interrupted by our Ctrl-C: nothing to judge about its output
        if h['exception']:
            what = h.get('what') or ('message' if h['kind'] == 'message' else h['kind'])
            V.add('C15/exception', h['kind'] + ':' + what + ':' + c18.trigger_of(h['exception']),
                  'exception left stop() of %s (%s): %s' % (h['spec'], what, fault_desc, h['exception'][-1200:]))
            continue
        if h['kind'] == 'message':
            cl = h['closure']
            events.append('m%d%s' % (h['slot'], 't' if h['thread'] != 1 else ''))
            nm = names[cl.conn]
            if cl.conn not in first_done:
                first_done.add(cl.conn)
                side = sim.world.conns[cl.conn].side
                if cl.name == 'get_registry':
                    role = 'client' if side == 'client' else 'server'
                else:
                    role = 'unknown type'
                if notices != [('New', role, nm)]:
                    V.add('C15/open-first', 'first-message', 'first message on a connection (%s, %s side) produced notices %r, expected New %s connection %s'
                          % (cl.brief(), side, notices, role, nm))
            elif notices:
                V.add('C15/open-first', 'later-message', 'message %s on known connection %s produced notices %r' % (cl.brief(), nm, notices))
            shown = [o for o in outs if o.kind == 'msg']
            if len(shown) != 1 or shown[0].conn != nm or shown[0].name != cl.name:
                V.add('C15/collateral', 'line', 'message %s on %s shown as %r' % (cl.brief(), nm, [o.text for o in shown]))
            if h['stop']:
                V.add('C15/exception', 'halted', 'stop() returned true for %s although no breakpoint matcher is set' % cl.brief())
        else:
            events.append('d%d%s' % (h.get('slot', 0), h['what'][0]))
            seen_foreign = True
            if h['what'] == 'open':
                nm = names[h['conn']]
                if [n for n in notices if n[0] == 'Closed'] != [n for n in notices] or [n[2] for n in notices] != [nm]:
                    V.add('C15/close-on-destroy', 'open', 'destroying open connection %s produced notices %r' % (nm, notices))
            else:
                if notices or any(o.kind != 'notice' for o in outs):
                    V.add('C15/noisy-destroy', h['what'], 'destroying a %s connection produced output %r' % (h['what'], [o.text for o in outs]))
            if h['stop']:
                V.add('C15/exception', 'destroy-halted', 'wl_connection_destroy breakpoint halted the program')
    if not V.list:
        st = pseudo_stream(sim)
        A = common.Viol()
        py2inc = oracles.check_attribution(st, sim.tracker, A, names=names)
        oracles.check_lifetimes(st, sim.tracker, A, py2inc, names=names)
        for v in A.list:
            sig = 'C15/stale-table' if any(x in v['sig'] for x in ('target', 'arg', 'identity', 'bijection')) else 'C15/collateral'
            V.add(sig, v['sig'], v['detail'])
        # connections(): closed ones stay listed, open flags right
        want = []
        closed = {e[1] for e in sim.conn_events if e[0] == 'close'}
        for ci in sim.order:
            want.append((names[ci], ci not in closed, len(sim.world.conns[ci].msgs)))
        got = [(c.name(), c.is_open(), len(c.messages())) for c in sim.cm.connections()]
        if got != want:
            V.add('C15/close-on-destroy', 'connections()', 'connections() = %r, expected %r' % (got, want))
    if sc['config'].get('calibrate_real_gdb') and not V.list and all(h['thread'] == 1 for h in sim.hits):
        from .. import realgdb
        problems = realgdb.calibrate(sim)
        V.bump('calibration_real_gdb_sessions')
        if problems:
            raise rig.HarnessError('fake gdb disagrees with the real gdb: ' + '; '.join(problems)[:3000])
    for h in sim.hits:
        if h['kind'] == 'message' and h['thread'] != 1:
            V.bump('probe_message_from_foreign_thread')
            seen_foreign = True
    if any(p.startswith('Warning: ') for s, k, p in sim.rec.events if k == 'out'):
        V.bump('probe_thread_warning_printed')
    key = ''.join(events)
    return {'violations': V.list, 'counters': V.counters, 'nt_keys': [key[:300]] if seen_foreign else [], 'inter_key': key[:400],
            'states': [], 'digest': sim.rec.digest(), 'canon': sim.rec.digest(True), 'sim_us': sim.clock.now_us, 'evals': 1,
            'sample': {'config': sc['config'], 'events': key[:120]}}
