"""Hand-written realistic breakages (DESIGN.md appendix F). Each is (file, old text, new text)."""
PARSE = 'backends/libwayland_debug_output/parse.py'
CTRL = 'frontends/tui/controller.py'
OUTPUT = 'core/output/output.py'
CONN = 'core/connection_impl.py'
MGR = 'core/connection_manager.py'
MSG = 'core/wl/message.py'
OBJ = 'core/wl/object.py'
ARG = 'core/wl/arg.py'
RUNNER = 'backends/libwayland_debug_output/runner.py'
MATCHER = 'core/matcher.py'
PLUGIN = 'backends/gdb_plugin/plugin.py'
EXTRACT = 'backends/gdb_plugin/extract.py'
LETTER = 'core/letter_id_generator.py'
UTIL = 'core/util.py'
MAIN = 'main.py'

MUTANTS = [
    dict(prop='C08', name='strip-before-empty-check', edits=[(PARSE,
        "            if line == '':\n                break\n            line = line.strip() # be sure to strip after the empty check",
        "            line = line.strip()\n            if line == '':\n                break")]),
    dict(prop='C08', name='unprocessed-drops-every-second', edits=[(OUTPUT,
        "        if self.show_unprocessed:\n            self.show(",
        "        self._n = getattr(self, '_n', 0) + 1\n        if self.show_unprocessed and self._n % 2:\n            self.show(")]),
    dict(prop='C08', name='no-cleanup-after-interrupt', edits=[(PARSE,
        "            except KeyboardInterrupt:\n                break",
        "            except KeyboardInterrupt:\n                self.known_connections = set()\n                break")]),
    dict(prop='C08', name='output-queued-until-eof', edits=[(PARSE,
        "            except RuntimeError as e:\n                self.out.unprocessed(str(e))",
        "            except RuntimeError as e:\n                self._late = getattr(self, '_late', []) + [str(e)]"),
        (PARSE, "    def cleanup(self):\n", "    def cleanup(self):\n        for s in getattr(self, '_late', []):\n            self.out.unprocessed(s)\n")]),
    dict(prop='C08', name='suppress-also-hides-after-first', edits=[(OUTPUT,
        "            self.show(color(symbol_color, ' ' * 6 + ' |  ' + ' '.join(map(lambda m: str(m), msg))))",
        "            self.show(color(symbol_color, ' ' * 6 + ' |  ' + ' '.join(map(lambda m: str(m).lstrip('['), msg))))")]),
]
