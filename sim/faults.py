"""Transport faults on the rendered log (DESIGN.md 2.3).  A fault is a list [kind, r1, r2]; positions are
raw draws reduced modulo what exists, so any subsequence of a fault list is valid."""

LINE_KINDS = ['drop', 'dup', 'swap', 'tear', 'long', 'bignum', 'id0', 'garbage']
BYTE_KINDS = ['flip', 'ins', 'del', 'badutf8', 'nul', 'truncate', 'cr', 'bom']

GARBAGE = ['[1.5] wl_foo@3.bar(', '[1.5]  -> @3.bar()', '[x] a@1.b()', '[1.5] a@1.b(]', '[1.5] a@1.b("unterminated)',
           '[1.5] wl_display@1.delete_id()', '[1.5] wl_display@1.delete_id("x")', '[1.5] wl_display@1.delete_id(99)',
           '[1.5] wl_registry@2.bind(1)', '[1.5] wl_registry@2.bind(1, 2, 3, 4)', '[1.5] wl_registry@2.bind(1, "", 1, new id [unknown]@7)',
           '[1.5] a@0.b()', '[1.5] wl_surface@1.commit()', '[1.5]  -> wl_display@1.sync(new id wl_callback@1)',
           '[1.5] wl_display@1.sync(new id wl_callback@0)', '[1.5] {} <> a@1.b()', '[1.5] {q} <conn!> a@1.b()',
           '[1.5] wl_surface@5.attach(nil, nil, nil, nil, nil)', '[1.5] xdg_toplevel@5.set_title(nil)', '[1.5] xdg_toplevel@5.set_app_id(3)',
           '[1.5] zwlr_layer_shell_v1@5.get_layer_surface(1)', '[1e5] a@1.b()', '[nan] a@1.b()', '[-1.5] a@1.b()',
           '[1.5] a@1.b(new id @3)', '[1.5] a@1.b(new id x@)', '\x1b[31m[1.5] a@1.b()\x1b[0m', '[1.5] a@1.b(\x1b[0m)',
           '[1.5] wl_display@1.error(nil, 1, "x")', '[1.5] wl_display@1.delete_id(1)', '[1.5] wl_display@1.delete_id(-4)',
           '[99999999999999999999.5] a@1.b()', '[1.5] a@1.b(1e999)', '[1.5] a@1.b(-1e999, 5)', '[1.5] wl_surface@3.damage(1e999, 1, 2, 3)',
           '[1.5] a@1.b(1e-999, 0e0, 1E5, 12e+3)', '[1.5] a@1.b(new id [unknown]@3)', '[1.5] a@1.b(new id [unknown]@3, "s")', '[1.5] wl_pointer@3.button(1, 2, 272, 1, 5, 6, 7)',
           '[1.5] a@1.b(-0.0, 0.0)', '[1.5] a@1.b(0.0, -0.0)', '[1.5] a@1.b(-0.000000)', '[1.5] a@1.b(1, 1.0, "1")']


def apply_line_faults(lines, faults, counts=None):
    """lines: list of str -> new list"""
    lines = list(lines)
    for f in faults:
        kind, r1, r2 = f[0], f[1], f[2] if len(f) > 2 else 0
        if kind not in LINE_KINDS:
            continue
        if not lines and kind != 'garbage':
            continue
        fired = True
        if kind == 'garbage':
            lines.insert(r1 % (len(lines) + 1), GARBAGE[r2 % len(GARBAGE)])
        else:
            i = r1 % len(lines)
            if kind == 'drop':
                del lines[i]
            elif kind == 'dup':
                lines.insert(i, lines[i])
            elif kind == 'swap':
                if i + 1 < len(lines):
                    lines[i], lines[i + 1] = lines[i + 1], lines[i]
                else:
                    fired = False
            elif kind == 'tear':
                if i + 1 < len(lines) and lines[i]:
                    cut = r2 % len(lines[i])
                    lines[i:i + 2] = [lines[i][:cut] + lines[i + 1], lines[i][cut:]]
                else:
                    fired = False
            elif kind == 'long':
                lines[i] = lines[i][:len(lines[i]) // 2] + 'x' * 65536 + lines[i][len(lines[i]) // 2:]
            elif kind == 'bignum':
                import re
                m = list(re.finditer(r'\d+', lines[i]))
                if m:
                    mm = m[r2 % len(m)]
                    lines[i] = lines[i][:mm.start()] + '9' * 5000 + lines[i][mm.end():]
                else:
                    fired = False
            elif kind == 'id0':
                import re
                m = list(re.finditer(r'[@#]\d+', lines[i]))
                if m:
                    mm = m[r2 % len(m)]
                    lines[i] = lines[i][:mm.start() + 1] + '0' + lines[i][mm.end():]
                else:
                    fired = False
        if fired and counts is not None:
            counts['fault_' + kind] = counts.get('fault_' + kind, 0) + 1
    return lines


def apply_byte_faults(data, faults, counts=None):
    data = bytearray(data)
    for f in faults:
        kind, r1, r2 = f[0], f[1], f[2] if len(f) > 2 else 0
        if kind not in BYTE_KINDS or not data:
            continue
        off = r1 % len(data)
        if kind == 'flip':
            data[off] ^= 1 << (r2 % 8)
        elif kind == 'ins':
            data.insert(off, r2 % 256)
        elif kind == 'del':
            del data[off]
        elif kind == 'badutf8':
            data[off:off] = [b'\xff', b'\xc3', b'\xe2\x82', b'\xf0\x9f\x98', b'\x80', b'\xed\xa0\x80'][r2 % 6]
        elif kind == 'nul':
            data.insert(off, 0)
        elif kind == 'cr':
            # a lone carriage return (progress output redrawn with \r, or just before a message)
            nl = data.find(b'\n', off)
            data.insert(off if (r2 % 2 or nl < 0) else nl + 1, 13)
        elif kind == 'bom':
            # a byte-order mark: at the very start of the stream (a program whose first write carries one), or at the
            # start of a later line
            nl = data.find(b'\n', off)
            at = 0 if (r2 % 3 or nl < 0) else nl + 1
            data[at:at] = b'\xef\xbb\xbf'
        elif kind == 'truncate':
            del data[off:]
        if counts is not None:
            counts['fault_' + kind] = counts.get('fault_' + kind, 0) + 1
    return bytes(data)


def gen_faults(rng, n, kinds):
    return [[rng.choice(kinds), rng.randrange(1 << 30), rng.randrange(1 << 30)] for _ in range(n)]
