"""C11 — `list` returns exactly the recorded messages that match, with honest counts; no side effects."""
from .. import session as S
from . import common
from . import c06

ID = 'C11'
LEVEL = 'exploration'
RUNS = {'quick': 6400}
BUDGET_S = {'thorough': 600}
WANT = {'C11'}
CMD_WEIGHTS = {'list': 10, 'connection': 3, 'filter': 2, 'breakpoint': 1, 'other': 1}
RULE = ('one evaluation = one simulated session (component rig) in which `list [X:] [matcher] [~ N]` is issued at '
        'scheduler-chosen points of a streaming history, with and without a selected connection, N in {absent, 0, 1.., beyond}, '
        'repeated; listed lines and the matched/didn\'t/not-checked counts are compared with the reference evaluation of the '
        'recorded history, and filter/breakpoint/selection behaviour after the listing is checked by the C06/C12 model on the '
        'following traffic. Non-trivial = a listing with at least one matching and one non-matching recorded message; distinct = '
        'hash of (command texts, positions, interleaving)')
REAL = c06.REAL
STUBBED = c06.STUBBED
ASSUMPTIONS = c06.ASSUMPTIONS + ['queries for which some recorded message is don\'t-care are checked for inclusion only and counted']
SHRINK_FIELDS = ['intents']


GDB_LANES = c06.GDB_LANES


def generate(seed, tier, index):
    if c06.in_gdb_world():
        return c06.gen_gdb_session(seed, tier, CMD_WEIGHTS, ID, ncmd_range=(2, 8), closing=False)
    if index % 6 == 5:
        # all recorded histories, also ones with messages the tool cannot resolve; listing with `*` / the default filter only
        import random
        from .. import session as S
        sc = c06.gen_session(seed, tier, {'connection': 1}, ncmd_range=(1, 4), initial_filter_p=0.0, pid=ID)
        rng = random.Random('%d/orphans' % seed)
        out = []
        for it in sc['intents']:
            out.append(it)
            if it[0] == 'act' and rng.random() < 0.2:
                out.append(['act', it[1], 'orphan', rng.randrange(1 << 30), rng.randrange(1 << 30), rng.randrange(1 << 30)])
            if it[0] == 'act' and rng.random() < 0.12:
                cap = rng.choice([None, None, 1, 2, 5, 1000])
                text = rng.choice(['list', 'l', 'list *'])
                m = {'kind': 'star'} if text.endswith('*') else None
                out.append(['cmd', text + (' ~ %d' % cap if cap is not None else ''), {'t': 'list', 'm': m, 'cap': cap}])
        sc['intents'] = out
        sc['config']['orphans'] = True
        return sc
    sc = c06.gen_session(seed, tier, CMD_WEIGHTS, ncmd_range=(2, 8), pid=ID)
    return sc


def execute(sc):
    # side effects of list on filter/selection/breakpoint would show up as C06/C12-model mismatches on later traffic:
    # report those here as C11/side-effect
    if sc['config'].get('world') == 'gdb':
        st, res, tr, V0, sim = c06.run_and_judge_gdb(sc, {'C11', 'C06', 'C12'}, ID)
    else:
        st, res, tr, V0 = c06.run_and_judge(sc, {'C11', 'C06', 'C12'}, ID)
    V = common.Viol()
    V.counters = V0.counters
    V.states = V0.states
    for v in V0.list:
        if v['sig'].startswith('C11/'):
            V.list.append(v)
        else:
            V.add('C11/side-effect', v['sig'], 'after list commands the session no longer follows the filter/selection model: ' + v['detail'])
    nontrivial = V.counters.get('list_exact', 0) > 0
    return c06.finish(sc, st, res, V, nontrivial)
