#!/usr/bin/env python3
"""Evaluate a seeded breaking change: tools/seedcheck.py <dir with patch.diff + demo.py> <PROP> [--all] [--patch patch2.diff --demo demo2.py]

1. scratch copy of /repo (outside /repo and /verif), patch applied
2. baseline suite: the 214 stable tests must still pass
3. demo exits 1 on the patched copy and 0 on /repo
4. ./check PROP --tier quick against the copy (VERIF_REPO) must exit 1 with a VIOLATION line
   (--all: every claimed check is run, to record which checks catch the change)
The copy is removed afterwards."""
import os
import sys
import json
import shutil
import subprocess
import tempfile

VERIF = os.path.dirname(os.path.dirname(os.path.abspath(__file__)))
sys.path.insert(0, os.path.join(VERIF, 'selftest'))
from run import suite_ok  # noqa: E402

ALL = ['C02', 'C03', 'C04', 'C06', 'C08', 'C09', 'C10', 'C11', 'C12', 'C13', 'C14', 'C15', 'C16', 'C17', 'C18']


def main():
    d = sys.argv[1]
    prop = sys.argv[2]
    patch = 'patch.diff'
    demo = 'demo.py'
    if '--patch' in sys.argv:
        patch = sys.argv[sys.argv.index('--patch') + 1]
    if '--demo' in sys.argv:
        demo = sys.argv[sys.argv.index('--demo') + 1]
    tmp = tempfile.mkdtemp(prefix='seedchk-')
    repo = os.path.join(tmp, 'repo')
    out = {'dir': d, 'property': prop, 'patch': patch}
    try:
        shutil.copytree('/repo', repo, ignore=shutil.ignore_patterns('.git', '__pycache__'))
        r = subprocess.run(['patch', '-p1', '-i', os.path.abspath(os.path.join(d, patch))], cwd=repo, capture_output=True, text=True)
        out['patch_applies'] = r.returncode == 0
        if r.returncode != 0:
            out['patch_error'] = r.stdout[-500:] + r.stderr[-500:]
            print(json.dumps(out, indent=1))
            return 2
        check_only = '--check-only' in sys.argv     # regression over stored seeds: suite and demo were confirmed when stored
        missing = [] if check_only else suite_ok(repo)
        out['suite_still_passes'] = not missing
        out['suite_missing'] = missing[:5]
        env = dict(os.environ, PYTHONDONTWRITEBYTECODE='1')
        dp = os.path.abspath(os.path.join(d, demo))
        if not check_only:
            r1 = subprocess.run(['/venv/bin/python', dp, repo], capture_output=True, text=True, errors='replace', timeout=600, env=env, cwd=tmp)
            r0 = subprocess.run(['/venv/bin/python', dp, '/repo'], capture_output=True, text=True, errors='replace', timeout=600, env=env, cwd=tmp)
            out['demo_fails_with_patch'] = r1.returncode != 0
            out['demo_passes_without'] = r0.returncode == 0
            out['demo_output_with_patch'] = (r1.stdout + r1.stderr)[-400:]
        props = ALL if '--all' in sys.argv else [prop]
        out['checks'] = {}
        for p in props:
            r = subprocess.run([os.path.join(VERIF, 'check'), p, '--tier', 'quick', '--no-evidence'], cwd=VERIF,
                               env=dict(os.environ, VERIF_REPO=repo), capture_output=True, text=True, errors='replace')
            viol = [l for l in r.stdout.splitlines() if l.startswith('VIOLATION')]
            det = [l.strip() for l in r.stdout.splitlines() if l.startswith('  ')][:1]
            out['checks'][p] = {'exit': r.returncode, 'caught': r.returncode == 1 and bool(viol), 'detail': det[0][:300] if det else r.stdout[-200:]}
        out['caught_by_own_check'] = out['checks'][prop]['caught']
    finally:
        shutil.rmtree(tmp, ignore_errors=True)
    print(json.dumps(out, indent=1))
    return 0


if __name__ == '__main__':
    sys.exit(main())
