"""helpers shared by the log-world properties"""
from .. import rig
from .. import runshim

BASE_ENV = {'HOME': '/home/sim', 'PATH': '/usr/bin:/bin', 'LANG': 'C.UTF-8', 'WAYLAND_DISPLAY': 'wayland-0'}


def argv_for(cfg, extra=()):
    argv = ['main.py', '--color' if cfg.get('color') else '-C']
    if cfg.get('suppress'):
        argv.append('--supress')
    if cfg.get('filter') is not None:
        argv += ['-f', cfg['filter']]
    if cfg.get('break') is not None:
        argv += ['-b', cfg['break']]
    argv += list(extra)
    if cfg.get('libwayland'):
        argv += ['--libwayland', cfg['libwayland']]
    mode = cfg['mode']
    if mode == 'file':
        argv += ['-l', 'sim.log']
    elif mode == 'pipe':
        argv += ['-p']
    elif mode == 'run':
        sp = cfg.get('run_spelling') or '-r'
        if sp == 'cluster' and argv[1] == '-C':
            # the run marker as the last letter of a cluster of single-letter flags
            del argv[1]
            sp = '-Cr'
        elif sp == 'cluster':
            sp = '-r'
        argv += [sp] + list(cfg.get('prog') or ['prog'])
    else:
        raise AssertionError(mode)
    return argv


def run_mode(cfg, data, chunks, rec=None, on_read=None, interrupt_at=None, script=('quit',), stdin_errors='strict',
             capture=False, shim_out=None):
    """run main.main in the configured input mode over the simulated bytes"""
    argv = argv_for(cfg)
    rec = rec or rig.Recorder()
    if cfg['mode'] == 'run':
        shim = runshim.RunShim(data, cfg.get('writes') or chunks, cfg.get('cap', 65536), cfg.get('status', 0),
                               cfg.get('sched_seed', 0), cfg.get('environ') or BASE_ENV, rec, on_read=on_read,
                               script=cfg.get('baton_script'))
        if shim_out is not None:
            shim_out.append(shim)
        res = rig.run_main(argv, b'', [1], script=script, rec=rec, run_shim=shim, capture=capture)
        res.shim = shim
        return res
    return rig.run_main(argv, data, chunks, script=script, on_read=on_read, interrupt_at=interrupt_at,
                        stdin_errors=stdin_errors, rec=rec, capture=capture)


def observe_file(sc, st, rec=None, script=('quit',), cfg_override=None):
    """run the whole stream through main.main (file/pipe/run per config) with a Tracker attached"""
    from .. import track
    cfg = dict(sc['config'])
    if cfg_override:
        cfg.update(cfg_override)
    rec = rec or rig.Recorder()
    tr = track.Tracker(rec)
    argv = argv_for(cfg)
    if cfg['mode'] == 'run':
        shim = runshim.RunShim(st.data, cfg.get('writes') or cfg.get('chunks') or [1 << 20], cfg.get('cap', 65536),
                               cfg.get('status', 0), cfg.get('sched_seed', 0), cfg.get('environ') or BASE_ENV, rec)
        res = rig.run_main(argv, b'', [1], script=script, rec=rec, run_shim=shim, tracker=tr)
        res.shim = shim
    else:
        res = rig.run_main(argv, st.data, cfg.get('chunks') or [1 << 20], script=script, rec=rec, tracker=tr)
    return res, tr


def observe_component(sc, st, rec=None, post_cmds=(), filter_text=None, break_text=None, color=False):
    """component rig: Parser + ConnectionManager + Controller, commands interleaved between reads"""
    from .. import track
    rec = rec or rig.Recorder()
    tr = track.Tracker(rec)
    steps = []
    for s in st.steps:
        if s[0] == 'line':
            steps.append(('line', s[1]))
        elif s[0] == 'cmd':
            steps.append(('cmd', s[1]))
        elif s[0] == 'close':
            steps.append(('close', s[1]))
    res = rig.run_component(steps, filter_text=filter_text, break_text=break_text,
                            show_unprocessed=not sc['config'].get('suppress', False), color=color, rec=rec,
                            listener_factory=lambda cm: tr.make(), post_cmds=post_cmds,
                            nonewline=sc['config'].get('nonewline', sc['seed'] % 4 == 0))
    return res, tr


def world_conn_order(st):
    """world connection indexes in order of first appearance in the stream"""
    from .. import world as W
    order = []
    for _, it in st.lines:
        if isinstance(it, W.Closure) and it.conn not in order:
            order.append(it.conn)
    return order


class Viol:
    def __init__(self):
        self.list = []
        self.counters = {}
        self.states = set()

    def add(self, sig, trigger, detail):
        if not any(v['sig'] == sig and v['trigger'] == trigger for v in self.list):
            self.list.append({'sig': sig, 'trigger': trigger, 'detail': detail})

    def bump(self, k, n=1):
        self.counters[k] = self.counters.get(k, 0) + n
