"""Interactive sessions: traffic interleaved with user commands, judged against a reference model of
filter / breakpoint / selection / recorded history (serves C06, C11, C12, C14, C16, C17).

Command intents are ['cmd', text, meta]; meta says what the user meant, e.g.
  {'t': 'filter'|'breakpoint', 'm': <matcher model>}      accumulate
  {'t': 'filter'|'breakpoint', 'bad': True}               malformed text
  {'t': 'filter'|'breakpoint', 'show': True}              no argument
  {'t': 'list', 'm': <model or None>, 'cap': int|None}
  {'t': 'connection', 'to': 'A'|'all'|None, 'bad': bool}
  {'t': 'other'}                                          help, matcher, garbage, ...
"""
import re
import random

from . import world as W
from . import logworld as L
from . import refmatch as R
from . import oracles
from . import rig

MUST, MUSTNOT, DC = R.MUST, R.MUSTNOT, R.DC
TOL4 = 1.5e-4

LIST_HEADER_RE = re.compile(r'^Messages that match (.*):$')
COUNT_RE = re.compile(r"^\((\d+) matched, (\d+) didn't(?:, (\d+) not checked)?\)$")
NONE_RE = re.compile(r'^ ╰╴ None of the (\d+) messages so far$')
NOYET = ' ╰╴ No messages yet'


# ----------------------------------------------------------------------------- matcher-state model (C12)

class MState:
    """Reference model of an accumulated filter / breakpoint matcher.

    A command that spells "every message" other than as a bare `*` (`*.*`, `.`, `()` ...) among its alternatives or its
    exclusions can be read two ways: as the constant (`*` / `!`: the next command replaces it) or as an ordinary pattern
    that happens to match everything (the next command accumulates).  The statement does not say, so after such a command
    the model carries both states (`shadow` is the second reading) and judges a message only where they agree."""

    def __init__(self, const):
        self.shadow = None
        self._reset(const)

    def _reset(self, const):
        self.const = const        # 'star' | 'bang' | None
        self.alts = []
        self.excl = []
        self.star = False
        self.absorbed = []

    def copy(self):
        m = MState(self.const)
        m.alts = list(self.alts)
        m.excl = list(self.excl)
        m.star = self.star
        m.absorbed = list(self.absorbed)
        m.shadow = self.shadow.copy() if self.shadow is not None else None
        return m

    def apply(self, m):
        alias = m.get('alias')
        if alias:
            sh = self.shadow if self.shadow is not None else self.copy()
            sh.shadow = None
            sh._apply1(m)
            self._apply1({'kind': 'bang' if alias == 'excl' else 'star'})
            self.shadow = sh
            return
        if self.shadow is not None:
            self.shadow._apply1(m)
        self._apply1(m)
        if m['kind'] == 'bang':
            self.shadow = None

    def _apply1(self, m):
        if m['kind'] == 'bang':
            self._reset('bang')
            return
        if m['kind'] == 'star':
            if self.const is not None:
                self._reset('star')
            else:
                self.absorbed += self.alts
                self.alts = []
                self.star = True
                if not self.excl:
                    self._reset('star')
            return
        if self.const is not None:
            self.const = None
            self.alts = list(m['alts'])
            self.excl = list(m['excl'])
            self.star = not m['alts']
            self.absorbed = []
            return
        self.excl += m['excl']
        if m['alts']:
            self.alts += m['alts']
            self.star = False

    def value(self, cl, conn_name):
        v = self._value1(cl, conn_name)
        if self.shadow is not None and self.shadow._value1(cl, conn_name) != v:
            return DC
        return v

    def _value1(self, cl, conn_name):
        if self.const == 'star':
            return MUST
        if self.const == 'bang':
            return MUSTNOT
        if self.star:
            alt = MUST
        else:
            alt = R.v_or(R.pattern_value(p, cl, conn_name) for p in self.alts)
            if alt == MUSTNOT and self.absorbed:
                ab = R.v_or(R.pattern_value(p, cl, conn_name) for p in self.absorbed)
                if ab != MUSTNOT:
                    alt = DC      # alternative swallowed by an earlier `*`: survival undecided
        exc = R.v_or(R.pattern_value(p, cl, conn_name) for p in self.excl) if self.excl else MUSTNOT
        return R.v_and(alt, R.v_not(exc))

    def describe(self):
        d = self._describe1()
        if self.shadow is not None:
            return {'as-constant': d, 'as-pattern': self.shadow._describe1()}
        return d

    def _describe1(self):
        if self.const:
            return self.const
        return {'alts': [R.render_pattern(p) for p in self.alts], 'excl': [R.render_pattern(p) for p in self.excl],
                'star': self.star, 'absorbed': [R.render_pattern(p) for p in self.absorbed]}


def initial_state(model, default):
    st = MState(default)
    if model is not None:
        st.apply(model)
    return st


class Selection:
    """reference model of `connection X`: by name first (case-insensitive), then by app id, in order of opening"""

    def __init__(self):
        self.opened = []          # connection names in order of opening
        self.app_id = {}          # name -> app id (last set_app_id with a non-empty string)
        self.selected = None

    def saw(self, cl, nm):
        if nm not in self.opened:
            self.opened.append(nm)
        if cl.name == 'set_app_id' and cl.args and cl.args[0].kind == 's' and cl.args[0].value:
            self.app_id[nm] = cl.args[0].value

    def command(self, meta):
        """-> 'ok' | 'unknown' | None (no change requested)"""
        to = meta.get('to')
        if to == 'all':
            self.selected = None
            return 'ok'
        if to is None:
            return None
        for nm in self.opened:
            if nm.lower() == to.lower():
                self.selected = nm
                return 'ok'
        for nm in self.opened:
            if nm in self.app_id and self.app_id[nm].lower() == to.lower():
                self.selected = nm
                return 'ok'
        return 'unknown'


# ----------------------------------------------------------------------------- command generation

BAD_MATCHERS = ['wl_surface(', '[wl_surface', 'a.b.c', 'a:b:c', 'wl_surface.commit(x) y', 'wl surface', 'wl_surface$',
                'x.y(z', '(', '[', 'a.b(c))d', 'A:B:c.d', 'wl_pointer(x=1', 'foo@bar@baz', 'x(y)z',
                # letters and digits outside ASCII where an id, a generation letter or a name is expected
                '.foo("a"b")', '("x"y")', '.motion("a"")', '7é', '#9ß', '.attach(buffer=3ñ)', 'wl_pointer ! 7Ω', '7\u212a', 'é', 'wl_é', '12①', 'wl_surface@5é']


def gen_commands(rng, voc, n, weights, spell_gdb=False):
    """-> list of ['cmd', text, meta]"""
    table = []
    for k, w in weights.items():
        table += [k] * w
    out = []
    for _ in range(n):
        k = rng.choice(table)
        if k in ('filter', 'breakpoint'):
            word = rng.choice([k, k[0], k[:3]]) if k == 'filter' else rng.choice([k, 'b', 'break'])
            r = rng.random()
            if r < 0.12:
                out.append(['cmd', word, {'t': k, 'show': True}])
            elif r < 0.24:
                out.append(['cmd', word + ' ' + rng.choice(BAD_MATCHERS), {'t': k, 'bad': True}])
            else:
                m = R.gen_matcher(rng, voc, p_const=0.2)
                if m['kind'] == 'list' and m['excl'] and rng.random() < 0.3:
                    m = {'kind': 'list', 'alts': [], 'excl': m['excl']}
                if m['kind'] == 'list' and rng.random() < 0.1:
                    # "every message" spelt other than as a bare `*`, among the exclusions or (no exclusions) the alternatives
                    sp = {'staralias': rng.choice(R.STAR_ALIASES)}
                    if m['excl'] or rng.random() < 0.5:
                        m = {'kind': 'list', 'alts': m['alts'], 'excl': m['excl'] + [sp], 'alias': 'excl'}
                        rng.shuffle(m['excl'])
                    elif sp['staralias'] != '*' or len(m['alts']) > 0:
                        m = {'kind': 'list', 'alts': m['alts'] + [sp], 'excl': [], 'alias': 'alt'}
                        rng.shuffle(m['alts'])
                text = R.render(m)
                if m['kind'] == 'list' and not m['alts']:
                    text = '! ' + ', '.join(R.render_pattern(p) for p in m['excl'])
                out.append(['cmd', word + ' ' + text, {'t': k, 'm': m}])
        elif k == 'list':
            word = rng.choice(['list', 'l', 'li'])
            m = None
            text = word
            if rng.random() < 0.8:
                m = R.gen_matcher(rng, voc, p_const=0.15)
                if m['kind'] == 'list' and m['excl'] and rng.random() < 0.35:
                    # exclusions only: everything recorded except ... (whatever the current filter is, which a listing never touches)
                    m = {'kind': 'list', 'alts': [], 'excl': m['excl']}
                    text += ' ! ' + ', '.join(R.render_pattern(p) for p in m['excl'])
                else:
                    text += ' ' + R.render(m)
            cap = None
            if rng.random() < 0.5:
                cap = rng.choice([0, 1, 1, 2, 3, 5, 10, 1000])
                text += ' ~ %d' % cap if (rng.random() < 0.7 or m is None) else '~%d' % cap
            out.append(['cmd', text, {'t': 'list', 'm': m, 'cap': cap}])
        elif k == 'resume':
            # harmless outside GDB mode; whatever it does, it is not a display command
            out.append(['cmd', rng.choice(['resume', 'r', 'res', 'wl resume']), {'t': 'other'}])
        elif k == 'connection':
            word = rng.choice(['connection', 'c', 'conn'])
            r = rng.random()
            if r < 0.2:
                out.append(['cmd', word, {'t': 'connection', 'to': None}])
            elif r < 0.4:
                out.append(['cmd', word + ' all', {'t': 'connection', 'to': 'all'}])
            elif r < 0.5:
                out.append(['cmd', word + ' nosuch', {'t': 'connection', 'to': None, 'bad': True}])
            else:
                nm = rng.choice(voc.conns + ['A', 'B', 'b', 'c', 'org.gnome.gedit', 'x.b'])
                out.append(['cmd', word + ' ' + (nm.lower() if rng.random() < 0.3 else nm), {'t': 'connection', 'to': nm}])
        else:
            out.append(['cmd', rng.choice(['help', 'help list', 'matcher wl_surface', 'h', 'm x.y', 'help matcher',
                                           # (state-neutral: only `list` / `matcher` / `help` may appear here)
                                           'list (argb8888)', 'list (xrgb8888)', 'list wl_shm.format(argb8888)', 'list (pressed)', 'list (pointer)',
                                           'list (format=xrgb8888)', 'list (none)', 'list .(! 5)', 'matcher wl_surface(! x=)', 'list (! nil)',
                                           'matcher (! 1, 2)', 'list [wl_* ! wl_display].[* ! sync]', 'matcher ([1, 2] ! x=)']), {'t': 'other'}])
    return out


def collision_flavour(rng, intents, voc, verb):
    """two consecutive commands whose matchers print alike but mean different things: (7) and ("7")"""
    both = [v for v in voc.ints if str(v) in voc.strs]
    v = rng.choice(both) if both else (rng.choice(voc.ints) if voc.ints else 7)
    a = {'kind': 'list', 'alts': [{'conn': None, 'bare': False, 'obj': None, 'name': '', 'args': [['int', v]]}], 'excl': []}
    b = {'kind': 'list', 'alts': [{'conn': None, 'bare': False, 'obj': None, 'name': '', 'args': [['str', str(v)]]}], 'excl': []}
    pair = [a, b] if rng.random() < 0.5 else [b, a]
    cmds = []
    for m in pair:
        text = verb + ' ' + R.render(m)
        cmds.append(['cmd', text, {'t': 'list', 'm': m, 'cap': None} if verb == 'list' else {'t': verb, 'm': m}])
    if verb != 'list':
        cmds.append(['cmd', 'list', {'t': 'list', 'm': None, 'cap': None}])
    pos = rng.randint(len(intents) // 2, len(intents))
    return intents[:pos] + cmds + intents[pos:]


def revisit_flavour(rng, intents, names):
    """select X, list, select Y, (traffic), select X again, list again: anything remembered per connection between two
    listings must have been brought up to date by the traffic that arrived while another connection was selected"""
    if len(names) < 2 or len(intents) < 8:
        return intents
    x, y = rng.sample(sorted(names), 2)
    cut = sorted(rng.sample(range(2, len(intents)), 3))
    star = {'kind': 'star'}
    blocks = [[['cmd', 'connection ' + x, {'t': 'connection', 'to': x}], ['cmd', 'list *', {'t': 'list', 'm': star, 'cap': None}],
               ['cmd', 'connection ' + y, {'t': 'connection', 'to': y}]],
              [['cmd', 'connection ' + x, {'t': 'connection', 'to': x}], ['cmd', 'list *', {'t': 'list', 'm': star, 'cap': None}]],
              [['cmd', 'connection all', {'t': 'connection', 'to': 'all'}], ['cmd', 'list *', {'t': 'list', 'm': star, 'cap': None}]]]
    out = list(intents)
    for pos, blk in reversed(list(zip(cut, blocks))):
        out[pos:pos] = blk
    return out


def twin_sweep(rng, intents, names):
    """after the last message: look at every connection in turn and list it, with the same (absent or explicit) matcher and
    cap each time. Used with twin connections (identical histories, so equally many messages): whatever is remembered from
    one listing must not answer the next one"""
    variant = rng.choice([('list', None, None), ('list', None, None), ('list *', {'kind': 'star'}, None), ('list ~ 3', None, 3)])
    out = list(intents)
    order = sorted(names)
    if rng.random() < 0.5:
        order.reverse()
    for nm in order:
        out.append(['cmd', 'connection ' + nm, {'t': 'connection', 'to': nm}])
        out.append(['cmd', variant[0], {'t': 'list', 'm': variant[1], 'cap': variant[2]}])
    return out


def insert_commands(rng, intents, cmds, at_end=False):
    out = list(intents)
    if at_end:
        return out + cmds
    for c in cmds:
        r = rng.random()
        if r < 0.1:
            pos = 0
        elif r < 0.2:
            pos = len(out)
        else:
            pos = rng.randint(0, len(out))
        out.insert(pos, c)
    return out


# ----------------------------------------------------------------------------- running

def run(sc, color=False, rec=None):
    """component rig session. Returns (stream, result, tracker)"""
    from .props import common
    st = L.build_stream(sc, rig.REPO)
    steps = []
    metas = []
    for s in st.steps:
        if s[0] == 'line':
            steps.append(('line', s[1]))
    # rebuild with metas: build_stream keeps only text for cmds; walk intents again for metas
    cmd_metas = [it[2] if len(it) > 2 else {'t': 'other'} for it in sc['intents'] if it[0] == 'cmd']
    cfg = sc['config']
    res, tr = common.observe_component(sc, st, rec=rec, filter_text=cfg.get('filter'), break_text=cfg.get('break'),
                                       color=color)
    return st, res, tr, cmd_metas


# ----------------------------------------------------------------------------- judging

class Seg:
    __slots__ = ('kind', 'payload', 'outs', 'errs', 'seq', 'fault')


def segments(rec):
    """split the event log into segments: ('line', text) / ('cmd', text) / ('eof',) each with the out/err
    events that follow it"""
    segs = []
    cur = Seg()
    cur.kind = 'start'
    cur.payload = None
    cur.outs = []
    cur.errs = []
    cur.seq = -1
    segs.append(cur)
    for seq, kind, payload in rec.events:
        if kind in ('line', 'cmd', 'eof', 'close'):
            cur = Seg()
            cur.kind = kind
            cur.payload = payload
            cur.outs = []
            cur.errs = []
            cur.seq = seq
            cur.fault = False
            segs.append(cur)
        elif kind == 'out':
            cur.outs.append(L.classify(seq, payload))
        elif kind == 'err':
            cur.errs.append(payload)
        elif kind == 'fault-write' and cur is not None:
            cur.fault = True      # an injected output-write fault (Ctrl-C inside the write) hit something this step printed
    return segs


def key_of(cl, names, t0):
    if getattr(cl.target, 'orphan', False):
        # the tool cannot resolve the target: shown as `unresolved type@id?` with no connection name
        return ('', cl.target.iface, cl.target.id, '?', cl.name, (cl.t_us - t0) / 1e6)
    return (names[cl.conn], cl.target.iface, cl.target.id, W.letters(cl.target.gen), cl.name, (cl.t_us - t0) / 1e6)


def line_matches(o, key):
    return (o.kind == 'msg' and (o.conn, o.iface, o.id, o.gen, o.name) == key[:5] and abs(o.time - key[5]) <= TOL4)


def judge(sc, st, res, tr, cmd_metas, V, want):
    """want: set of clause groups to report: 'C06', 'C11', 'C12', 'C14'.  Everything is evaluated; only the
    groups asked for produce violations, the rest are counted."""
    cfg = sc['config']
    names = oracles.conn_names(st)
    segs = segments(res.rec)
    fstate = initial_state(cfg.get('filter_model'), 'star')
    bstate = initial_state(cfg.get('break_model'), 'bang')
    sel = Selection()
    selected = None           # connection name or None
    recorded = []             # closures in arrival order
    opened = sel.opened       # connection names opened so far
    line_items = [it for _, it in st.lines]
    li = 0
    ci = 0
    t0 = None
    for _, it in st.lines:
        if isinstance(it, W.Closure):
            t0 = it.t_us
            break

    def rep(group, sig, trigger, detail):
        if group in want:
            V.add(sig, trigger, detail)
        else:
            V.bump('other_property_clause_' + sig.replace('/', '_'))

    for seg in segs:
        if seg.kind == 'line':
            it = line_items[li]
            li += 1
            if not isinstance(it, W.Closure):
                continue
            cl = it
            nm = names[cl.conn]
            sel.saw(cl, nm)
            recorded.append(cl)
            if getattr(cl.target, 'orphan', False):
                V.bump('probe_unresolvable_target_message')
            sel_ok = selected is None or selected == nm
            fv = fstate.value(cl, nm)
            bv = bstate.value(cl, nm)
            shown = [o for o in seg.outs if o.kind == 'msg']
            stopped = [o for o in seg.outs if o.kind == 'other' and o.text.startswith(L.STOPPED_PREFIX)]
            key = key_of(cl, names, t0)
            if len(shown) > 1 or (shown and not line_matches(shown[0], key)):
                rep('C06', 'C06/order-or-dup', 'live', 'after input line %r the view shows %r' % (seg.payload, [o.text for o in shown]))
            exp = MUSTNOT if not sel_ok else fv
            if exp == DC:
                V.bump('dontcare_live_filter')
            elif exp == MUST and not shown and getattr(seg, 'fault', False):
                V.bump('live_line_lost_to_injected_output_fault')
            elif exp == MUST and not shown:
                d = 'message %s (conn %s) matches filter %r (selection %r) but was not shown' % (cl.brief(), nm, fstate.describe(), selected)
                rep('C06', 'C06/hidden-match', 'live', d)
                rep('C12', 'C12/must-selected', 'filter', d)
            elif exp == MUSTNOT and shown:
                d = 'message %s (conn %s) shown although filter %r / selection %r exclude it' % (cl.brief(), nm, fstate.describe(), selected)
                rep('C06', 'C06/shown-nonmatch', 'live', d)
                rep('C12', 'C12/mustnot-selected', 'filter', d)
            if exp == MUST:
                V.bump('live_must_shown')
            elif exp == MUSTNOT:
                V.bump('live_must_hidden')
            bexp = MUSTNOT if not sel_ok else bv
            if bexp == DC:
                V.bump('dontcare_live_break')
            elif bexp == MUST and not stopped and getattr(seg, 'fault', False):
                V.bump('stopped_at_notice_preempted_by_injected_output_fault')    # the KeyboardInterrupt halts the program instead
            elif bexp == MUST and not stopped:
                rep('C12', 'C12/must-selected', 'breakpoint', 'message %s should hit breakpoint %r: no Stopped-at notice' % (cl.brief(), bstate.describe()))
            elif bexp == MUSTNOT and stopped:
                rep('C12', 'C12/mustnot-selected', 'breakpoint', 'message %s hit breakpoint %r unexpectedly' % (cl.brief(), bstate.describe()))
            if bexp == MUST:
                V.bump('live_breakpoint_hits')
        elif seg.kind == 'close':
            V.bump('fault_connection_closed_mid_stream')
        elif seg.kind == 'cmd':
            meta = cmd_metas[ci] if ci < len(cmd_metas) else {'t': 'other'}
            ci += 1
            t = meta.get('t')
            V.bump('cmd_' + str(t))
            # (in GDB mode both streams are gdb's stderr, so error lines arrive on the same stream as everything else)
            errors = [e for e in seg.errs if 'Error: ' in e] + [o.text for o in seg.outs if o.text.startswith('Error: ')]
            if t in ('filter', 'breakpoint'):
                state = fstate if t == 'filter' else bstate
                if meta.get('bad'):
                    V.bump('cmd_malformed_matcher')
                    if not any('Failed to parse' in e for e in errors):
                        rep('C12', 'C12/error-line', t, 'malformed %r produced no "Failed to parse" error; out=%r err=%r' % (seg.payload, [o.text for o in seg.outs], seg.errs))
                elif meta.get('show'):
                    pass
                else:
                    if errors:
                        rep('C12', 'C12/error-line', 'valid-rejected', 'valid matcher command %r reported %r' % (seg.payload, errors))
                    was_const = state.const
                    state.apply(meta['m'])
                    if was_const is not None:
                        V.bump('probe_constant_replaced')
                    if meta['m']['kind'] == 'bang':
                        V.bump('probe_bang_reset')
                    if meta['m'].get('alias'):
                        V.bump('probe_every_message_spelt_otherwise_' + meta['m']['alias'])
                    if state.absorbed:
                        V.bump('probe_absorbed_alternatives')
            elif t == 'connection':
                r = sel.command(meta)
                selected = sel.selected
                if r == 'ok' and meta.get('to') != 'all':
                    V.bump('probe_connection_selected')
                    if selected.lower() != meta['to'].lower():
                        V.bump('probe_connection_selected_by_app_id')
                elif r == 'unknown' and not errors:
                    rep('C06', 'C06/shown-nonmatch', 'connection-unknown', 'selecting unknown connection %r gave no error' % meta.get('to'))
            elif t == 'list' and getattr(seg, 'fault', False):
                V.bump('listing_abandoned_by_injected_ctrl_c')     # cut short by our own Ctrl-C: its content is not judged, what follows is
            elif t == 'list':
                judge_list(seg, meta, fstate, selected, recorded, names, t0, V, rep, opened)
            if hasattr(V, 'states'):
                # abstract session state after each command: shape of the filter and breakpoint models, selection, history size class
                def shape(m):
                    return m.const or (len(m.alts), len(m.excl), m.star, bool(m.absorbed))
                V.states.add(repr((shape(fstate), shape(bstate), selected is not None, min(len(recorded), 3), len(opened))))
    # C06 not-recorded: every message is in Connection.messages() in order
    for wc, nm in names.items():
        truth = st.world.conns[wc].msgs
        snaps = tr.msgs.get(nm, [])
        faulted = any(getattr(g, 'fault', False) for g in segs)
        if faulted:
            # an exception travelling through the listener fan-out (our injected Ctrl-C) reaches the Controller before the
            # harness's own listener: the harness's copy may lack that message; the tool's own record is judged below
            V.bump('tracker_snapshot_not_judged_after_injected_output_fault')
        elif len(snaps) != len(truth) or any(s.name != c.name for s, c in zip(snaps, truth)):
            rep('C06', 'C06/not-recorded', 'messages()', 'connection %s recorded %d messages, history has %d' % (nm, len(snaps), len(truth)))
        if res.exception is None and getattr(res, 'conn_manager', None) is not None:
            conns = [c for c in res.conn_manager.connections() if c.name() == nm]
            if conns and len(conns[0].messages()) != len(truth):
                rep('C06', 'C06/not-recorded', 'messages()', 'connection %s: messages() has %d entries, history has %d' % (nm, len(conns[0].messages()), len(truth)))
    return names


def judge_list(seg, meta, fstate, selected, recorded, names, t0, V, rep, opened):
    outs = seg.outs
    if not outs or not LIST_HEADER_RE.match(outs[0].text):
        if meta.get('m') is None and not seg.errs:
            rep('C11', 'C11/content', 'no-header', 'list produced %r' % [o.text for o in outs][:3])
        return
    scope = [cl for cl in recorded if selected is None or names[cl.conn] == selected]
    if meta.get('m') is not None:
        mstate = initial_state(meta['m'], 'star')
        if meta['m']['kind'] == 'bang':
            mstate = MState('bang')
    else:
        mstate = fstate
    verdicts = [mstate.value(cl, names[cl.conn]) for cl in scope]
    cap = meta.get('cap')
    if cap == 0:
        cap = None
    body = outs[1:]
    shown = [o for o in body if o.kind == 'msg']
    tail = body[-1].text if body else ''
    n_dc = sum(1 for v in verdicts if v == DC)
    must = [cl for cl, v in zip(scope, verdicts) if v == MUST]
    # counts
    cm = COUNT_RE.match(tail)
    nm_ = NONE_RE.match(tail)
    if cm:
        a, b, c = int(cm.group(1)), int(cm.group(2)), int(cm.group(3) or 0)
        if a + b + c != len(scope):
            rep('C11', 'C11/counts', 'sum', 'list reports %d matched + %d didn\'t + %d not checked = %d, %d messages recorded in scope'
                % (a, b, c, a + b + c, len(scope)))
        if a != len(shown):
            rep('C11', 'C11/counts', 'matched', 'list reports %d matched but shows %d lines' % (a, len(shown)))
    elif nm_:
        if int(nm_.group(1)) != len(scope):
            rep('C11', 'C11/counts', 'none-of', 'list says none of %s messages; %d recorded in scope' % (nm_.group(1), len(scope)))
        if shown:
            rep('C11', 'C11/content', 'none-with-lines', 'lines shown together with "None of"')
    elif tail == NOYET:
        if opened:
            rep('C11', 'C11/counts', 'no-messages-yet', '"No messages yet" although connections exist')
    else:
        rep('C11', 'C11/counts', 'no-count-line', 'list output ends with %r' % tail)
    if n_dc:
        V.bump('list_with_dontcare_inclusion_only')
        keys_ok = [key_of(cl, names, t0) for cl, v in zip(scope, verdicts) if v != MUSTNOT]
        j = 0
        for o in shown:
            while j < len(keys_ok) and not line_matches(o, keys_ok[j]):
                j += 1
            if j >= len(keys_ok):
                rep('C11', 'C11/content', 'dc-extra', 'list %r shows %r which must not match' % (seg.payload, o.text))
                return
            j += 1
        return
    V.bump('list_exact')
    expect = must
    if cap is not None:
        expect = must[-cap:]
        V.bump('list_capped')
        if cap < len(must):
            V.bump('probe_cap_below_matches')
        elif cap == len(must):
            V.bump('probe_cap_equals_matches')
    if len(shown) != len(expect) or any(not line_matches(o, key_of(cl, names, t0)) for o, cl in zip(shown, expect)):
        sig = 'C11/last-n' if (cap is not None and len(must) > cap) else 'C11/content'
        rep('C11', sig, 'exact', 'list %r (selection %r, cap %r): shows %d lines %r, expected %d: %r' % (
            seg.payload, selected, cap, len(shown), [o.text for o in shown][:4], len(expect),
            [c.brief() for c in expect][:4]))
