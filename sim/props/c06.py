"""C06 — the live view shows exactly the messages matching the current filter (and selection);
everything is recorded; changes affect only later messages."""
import random

from .. import logworld as L
from .. import world as W
from .. import refmatch as R
from .. import session as S
from .. import oracles
from .. import rig
from . import common

ID = 'C06'
LEVEL = 'exploration'
RUNS = {'quick': 6400}
BUDGET_S = {'thorough': 600}
WANT = {'C06'}
CMD_WEIGHTS = {'filter': 6, 'connection': 5, 'list': 1, 'other': 1, 'breakpoint': 1}
RULE = ('one evaluation = one simulated session in the component rig (real Parser + ConnectionManager + Controller wired as '
        'main.main wires them): a 1-4 connection history streams in while a scripted user issues filter / connection commands '
        'between two reads at scheduler-chosen points (before the first message, inside a burst, at the end); every arriving '
        'message is stamped with the reference (filter, selection) in force and the shown lines are compared in both directions. '
        'Non-trivial = at least one filter or selection change took effect mid-stream and at least one message was hidden and '
        'one shown; distinct = hash of (command texts, their positions, interleaving)')
REAL = ['Parser, ConnectionManager, ConnectionImpl, Controller, core.matcher, core.wl.*']
STUBBED = ['line source (commands run between two readline() calls)', 'output streams (recording)',
           'XML parse results memoised per worker']
ASSUMPTIONS = ['three-valued reference matcher (sim/refmatch.py) covers the documented subset; don\'t-care outcomes are counted, '
               'never judged', 'accumulated-filter meaning is the C12 model (most runs here start from `*` so single filters replace)']
SHRINK_FIELDS = ['intents']


def gen_session(seed, tier, weights, ncmd_range=(1, 6), initial_filter_p=0.25, maxconn=4, pid='C06'):
    rng = random.Random('%d/gen' % seed)
    nconn = rng.choice([1, 2, 2, 3, 4][:maxconn + 1])
    total = rng.randint(10, 80 if tier == 'quick' else 200)
    per = [L.gen_conn_intents(seed, c, max(2, total // nconn), rng.choice(['mixed', 'churn', 'objects']))
           for c in range(nconn)]
    twins = nconn >= 2 and rng.random() < 0.12
    if twins:
        # twin connections: every connection replays connection 0's history, so all of them have equally many messages
        per = [[[it[0], c] + list(it[2:]) if it[0] == 'act' else list(it) for it in per[0]] for c in range(nconn)]
    intents = L.interleave(rng, per, chatter_rate=rng.choice([0, 0, 0.1]))
    cfg = {'nconn': nconn, 'sides': [rng.choice(['client', 'server']) for _ in range(nconn)],
           'dialect': L.pick_dialect(rng, nconn), 'epoch_us': rng.choice([0, rng.randrange(1 << 32)]),
           'suppress': rng.random() < 0.3, 'rig': 'component'}
    if nconn >= 2 and rng.random() < 0.15:
        intents = app_id_flavour(rng, intents, nconn)
        cfg['app_id_flavour'] = True
    sc = {'prop': pid, 'seed': seed, 'config': cfg, 'intents': intents}
    st = L.build_stream(sc, rig.REPO)
    names = oracles.conn_names(st)
    voc = R.Vocab(st, names)
    if rng.random() < initial_filter_p:
        m = R.gen_matcher(rng, voc, p_const=0.1)
        cfg['filter'] = R.render(m)
        cfg['filter_model'] = m
    cmds = S.gen_commands(rng, voc, rng.randint(*ncmd_range), weights)
    sc['intents'] = S.insert_commands(rng, intents, cmds)
    if nconn >= 2 and rng.random() < 0.2:
        sc['intents'] = S.revisit_flavour(rng, sc['intents'], voc.conns)
    if twins:
        sc['intents'] = S.twin_sweep(rng, sc['intents'], voc.conns)
        cfg['twin_connections'] = True
    if pid in ('C11', 'C12') and rng.random() < 0.15:
        sc['intents'] = S.collision_flavour(rng, sc['intents'], voc, 'list' if pid == 'C11' else rng.choice(['filter', 'breakpoint', 'filter']))
    if nconn >= 2 and pid == 'C06' and rng.random() < 0.15:
        # a backend closes one connection in the middle of the session; its traffic stops there, everybody else goes on
        c = rng.randrange(nconn)
        acts = [i for i, it in enumerate(sc['intents']) if it[0] == 'act' and it[1] == c]
        if len(acts) >= 2:
            pos = acts[rng.randrange(1, len(acts))]
            sc['intents'] = [it for i, it in enumerate(sc['intents']) if not (i >= pos and it[0] == 'act' and it[1] == c)]
            sc['intents'].insert(min(pos, len(sc['intents'])), ['close', c])
            cfg['mid_stream_close'] = True
    return sc


def app_id_flavour(rng, intents, nconn):
    """aim at `connection <x>` where <x> is both another connection's letter and an earlier connection's app id"""
    out = list(intents)
    c = rng.randrange(nconn)
    head = [['act', c, 'get_registry', 0, 0, 1], ['act', c, 'bind_synth', 1, 0, 2], ['act', c, 'bind_synth', 1, 0, 3],
            ['act', c, 'bind_synth', 2, 1, 4]]
    for k in range(rng.randint(1, 3)):
        # r1 % 10 picks the value: 0 'b', 1 'B', 2 'c', 3 'a', 9 'C'; r2 even = set_app_id
        head.append(['act', c, 'app_id', rng.choice([0, 1, 2, 3, 9]) + 10 * rng.randrange(100), 0, rng.randrange(1 << 30)])
    pos = rng.randint(0, max(0, len(out) // 3))
    out[pos:pos] = head
    return out


GDB_LANES = (12, 13, 14, 15)      # these lanes run the same property through the real GDB plugin path (fake gdb)


def in_gdb_world():
    import os
    return os.environ.get('VERIF_WORLD') == 'gdb'


def gen_gdb_session(seed, tier, weights, pid, ncmd_range=(1, 6), initial_filter_p=0.25, closing=True):
    """the GDB-world variant of a session: in real use this is the only mode in which commands are typed while
    messages are still arriving (the program is halted by a user interrupt, the command runs through
    Plugin.invoke_command, the user continues)"""
    from . import c10, c15
    rng = random.Random('%d/gen-gdb' % seed)
    nslots = rng.choice([1, 2, 2, 3])
    n = rng.randint(6, 60 if tier == 'quick' else 150)
    sides = [rng.choice(['client', 'server']) for _ in range(nslots)]
    traffic = []
    for s_ in range(nslots):
        if rng.random() < 0.8:
            traffic.append(['act', s_, 'get_registry', 0, 0, rng.randrange(1 << 30), 0])
    # (connections also come and go here: a destroyed connection stays listed and selectable, a later one at the same address
    # is a new connection - selection, filter and listings must follow)
    traffic += c15.gen_gdb_traffic(rng, seed, nslots, n, p_destroy=rng.choice([0.0, 0.0, 0.05, 0.12]), p_foreign_thread=0.02)
    w = W.World(seed, 0, ['client'], rig.REPO)
    slotconn = {}
    for it in traffic:
        if it[0] == 'destroy':
            slotconn.pop(it[1] % nslots, None)      # (vocabulary only: the simulation proper keeps its own books)
        if it[0] == 'act':
            if it[1] not in slotconn:
                c = W.ConnState(len(w.conns), sides[it[1] % len(sides)], w)
                w.conns.append(c)
                slotconn[it[1]] = c.index
            w.act(slotconn[it[1]], it[2], it[3], it[4], it[5])
        elif it[0] == 'tick':
            w.tick(it[1])
    st = c15.FakeStream()
    st.world = w
    st.lines = [(None, x) for x in w.items]
    voc = R.Vocab(st, oracles.conn_names(st))
    cfg = {'world': 'gdb', 'kind': 'gdb', 'nslots': nslots, 'sides': sides, 'synth': True, 'suppress': rng.random() < 0.5}
    if rng.random() < initial_filter_p:
        m = R.gen_matcher(rng, voc, p_const=0.1)
        cfg['filter'] = R.render(m)
        cfg['filter_model'] = m
    cmds = S.gen_commands(rng, voc, rng.randint(*ncmd_range), weights)
    out = [['cmd', c10.gdb_spelling(rng, c[1], c[2]), c[2]] for c in cmds]
    intents = S.insert_commands(rng, traffic, out)
    if rng.random() < 0.2:
        # output-side fault: Ctrl-C inside the write of the k-th live message line (not on the messages that also rename the
        # connection): that line is lost on the screen, nothing else changes
        cfg['ctrl_c_in_message_line'] = rng.choice([0, 0, 1, 2, 3, 5, 8, 13])
    elif rng.random() < 0.15:
        # output-side fault: Ctrl-C inside the k-th gdb.write of a command that changes nothing (a listing, help): the command is
        # abandoned; filter, breakpoint, selection and the record are as before, which the rest of the session shows
        cfg['ctrl_c_in_command_output'] = rng.choice([0, 0, 1, 2, 3, 5, 8])
    if closing:
        intents += [['cmd', 'wl connection all', {'t': 'connection', 'to': 'all'}],
                    ['cmd', 'wllist *', {'t': 'list', 'm': {'kind': 'star'}, 'cap': None, 'closing': True}]]
    return {'prop': pid, 'seed': seed, 'config': cfg, 'intents': intents}


class GdbRes:
    pass


def run_and_judge_gdb(sc, want, prefix):
    from .. import gdbworld
    from . import c15, c18
    V = common.Viol()
    sim = gdbworld.GdbSim(sc)
    sim.run()
    V.counters.update(sim.counters)
    st = c15.pseudo_stream(sim)
    res = GdbRes()
    res.rec = sim.rec
    res.exception = None
    res.conn_manager = sim.cm
    if sim.start_exception:
        V.add(prefix + '/exception', 'startup', sim.start_exception[-1200:])
        return st, res, sim.tracker, V, sim
    bad = [h for h in sim.hits if h['exception']] + [c for c in sim.cmd_log if c['exception'] and not c.get('injected_fault')]
    if bad:
        V.add(prefix + '/exception', c18.trigger_of(bad[0]['exception']), bad[0]['exception'][-1200:])
        return st, res, sim.tracker, V, sim
    metas = [c['meta'] or {'t': 'other'} for c in sim.cmd_log]
    # (the text gdb handed to the plugin is what the Controller saw; the session model is the same as in the component rig)
    S.judge(sc, st, res, sim.tracker, metas, V, want)
    V.bump('gdb_world_sessions')
    return st, res, sim.tracker, V, sim


def generate(seed, tier, index):
    if in_gdb_world():
        return gen_gdb_session(seed, tier, CMD_WEIGHTS, ID)
    if index % 6 == 5:
        # all histories, not only well-formed ones: messages on objects the tool cannot resolve, under selection changes
        # (filter stays `*`: what a matcher means for an unresolvable object is not C06's business)
        sc = gen_session(seed, tier, {'connection': 1}, ncmd_range=(1, 5), initial_filter_p=0.0)
        rng = random.Random('%d/orphans' % seed)
        out = []
        for it in sc['intents']:
            out.append(it)
            if it[0] == 'act' and rng.random() < 0.2:
                out.append(['act', it[1], 'orphan', rng.randrange(1 << 30), rng.randrange(1 << 30), rng.randrange(1 << 30)])
        sc['intents'] = out
        sc['config']['orphans'] = True
    else:
        sc = gen_session(seed, tier, CMD_WEIGHTS)
    # closing query: everything, shown or not, must have been recorded
    sc['intents'] += [['cmd', 'connection all', {'t': 'connection', 'to': 'all'}],
                      ['cmd', 'list *', {'t': 'list', 'm': {'kind': 'star'}, 'cap': None, 'closing': True}]]
    return sc


def run_and_judge(sc, want, prefix):
    st, res, tr, metas = S.run(sc)
    V = common.Viol()
    if res.exception is not None:
        V.add(prefix + '/exception', 'exception:' + type(res.exception).__name__, res.traceback[-1500:])
    else:
        S.judge(sc, st, res, tr, metas, V, want)
    return st, res, tr, V


def meta_closing(v):
    return 'list *' in v['detail'] and 'selection None' in v['detail']


def finish(sc, st, res, V, nontrivial):
    cmds = [(i, it[1]) for i, it in enumerate(sc['intents']) if it[0] == 'cmd']
    inter = ''.join(str(it.conn) for _, it in st.lines if isinstance(it, W.Closure))
    key = repr(cmds) + inter[:100]
    sample = {'config': {k: v for k, v in sc['config'].items() if not k.endswith('_model')},
              'commands': cmds[:8], 'messages': len(inter)}
    if sc['config'].get('world') == 'gdb':
        return {'violations': V.list, 'counters': V.counters, 'nt_keys': [key] if nontrivial else [], 'inter_key': key,
                'states': sorted(getattr(V, 'states', ())), 'digest': res.rec.digest(), 'canon': res.rec.digest(canonical=True),
                'sim_us': 0, 'evals': 1, 'sample': sample}
    return {'violations': V.list, 'counters': V.counters, 'nt_keys': [key] if nontrivial else [], 'inter_key': key,
            'states': sorted(getattr(V, 'states', ())), 'digest': res.rec.digest(), 'canon': res.rec.digest(canonical=True),
            'sim_us': st.world.now - st.world.epoch_us, 'evals': 1, 'sample': sample}


def execute(sc):
    if sc['config'].get('world') == 'gdb':
        st, res, tr, V0, sim = run_and_judge_gdb(sc, {'C06', 'C11'}, ID)
    else:
        st, res, tr, V0 = run_and_judge(sc, {'C06', 'C11'}, ID)
    V = common.Viol()
    V.counters = V0.counters
    V.states = V0.states
    for v in V0.list:
        if v['sig'].startswith('C06/'):
            V.list.append(v)
        elif v['sig'].startswith('C11/content') or v['sig'].startswith('C11/counts') or v['sig'].startswith('C11/last-n'):
            # every message, shown or not, is recorded for later queries: a listing that misses one is a recording failure
            V.add('C06/not-recorded', 'closing-list' if meta_closing(v) else 'listing', v['detail'])
    changed = any(it[0] == 'cmd' and it[2].get('t') in ('filter', 'connection') for it in sc['intents'])
    nontrivial = changed and V.counters.get('live_must_shown', 0) > 0 and V.counters.get('live_must_hidden', 0) > 0
    return finish(sc, st, res, V, nontrivial)
