"""Worker loop, shrinking, replay files, evidence, known findings, orchestration."""
import os
import sys
import json
import time
import copy
import hashlib
import signal
import subprocess
import importlib
import traceback

VERIF = os.path.dirname(os.path.dirname(os.path.abspath(__file__)))
PY = '/venv/bin/python'
LANES = 16
DEFAULT_SEED = 20260928


from .rig import RunTimeout  # noqa: E402  (BaseException subclass; see rig.py)


def h64(*parts):
    return hashlib.sha256('/'.join(str(p) for p in parts).encode()).hexdigest()[:16]


def run_seed(base, prop, index):
    return int(hashlib.sha256(('%d/%s/%d' % (base, prop, index)).encode()).hexdigest()[:15], 16)


def lane_hashseed(base, lane, salt=0):
    return int(hashlib.sha256(('hs/%d/%d/%d' % (base, lane, salt)).encode()).hexdigest()[:7], 16) % 4294967295


GDB_WORLD = ('C09', 'C10', 'C15')


def load_prop(pid):
    if os.environ.get('VERIF_WORLD') != 'log' and (pid.upper() in GDB_WORLD or os.environ.get('VERIF_WORLD') == 'gdb'):
        # the fake `gdb` module must be importable before the tool is (core.util.check_gdb())
        fake = os.path.join(VERIF, 'sim', 'fakegdb')
        if fake not in sys.path:
            sys.path.insert(0, fake)
    return importlib.import_module('sim.props.' + pid.lower())


def _alarm(signum, frame):
    raise RunTimeout()


def execute_guarded(prop, sc, limit_s=60):
    """run one scenario; a hang in the tool becomes RunTimeout (judged by the property)"""
    old = signal.signal(signal.SIGALRM, _alarm)
    signal.setitimer(signal.ITIMER_REAL, limit_s)
    try:
        return prop.execute(sc)
    finally:
        signal.setitimer(signal.ITIMER_REAL, 0)
        signal.signal(signal.SIGALRM, old)


def vkey(v):
    return v['sig'] + '|' + v.get('trigger', '')


# ------------------------------------------------------------------------------- shrinking

def ddmin(items, test, deadline):
    """classic ddmin; test(list) -> True when the failure persists"""
    n = 2
    items = list(items)
    while len(items) >= 1 and time.time() < deadline:
        chunk = max(1, len(items) // n)
        subsets = [items[i:i + chunk] for i in range(0, len(items), chunk)]
        reduced = False
        for i in range(len(subsets)):
            if time.time() > deadline:
                break
            comp = [x for j, s in enumerate(subsets) if j != i for x in s]
            if test(comp):
                items = comp
                n = max(n - 1, 2)
                reduced = True
                break
        if not reduced:
            if chunk == 1:
                break
            n = min(len(items), n * 2)
    return items


def shrink(prop, sc, key, budget_s=25):
    deadline = time.time() + budget_s
    best = copy.deepcopy(sc)

    def fails(cand):
        try:
            r = execute_guarded(prop, cand, 30)
        except RunTimeout:
            return key.startswith(prop.ID + '/timeout')
        except Exception:
            return False
        return any(vkey(v) == key for v in r['violations'])

    for field in getattr(prop, 'SHRINK_FIELDS', ['intents', 'faults']):
        if field not in best or not best[field]:
            continue

        def test(lst, field=field):
            cand = copy.deepcopy(best)
            cand[field] = lst
            return fails(cand)
        best[field] = ddmin(best[field], test, deadline)
    simp = getattr(prop, 'simplifications', None)
    if simp is not None:
        progress = True
        while progress and time.time() < deadline:
            progress = False
            for cand in simp(best):
                if time.time() > deadline:
                    break
                if fails(cand):
                    best = cand
                    progress = True
                    break
    return best


# ------------------------------------------------------------------------------- worker

def worker_main(argv):
    import argparse
    import faulthandler
    ap = argparse.ArgumentParser()
    ap.add_argument('--prop', required=True)
    ap.add_argument('--tier', default='quick')
    ap.add_argument('--seed', type=int, required=True)
    ap.add_argument('--lane', type=int, default=0)
    ap.add_argument('--lanes', type=int, default=LANES)
    ap.add_argument('--count', type=int, default=0)
    ap.add_argument('--budget', type=float, default=0)
    ap.add_argument('--indices', default='')
    ap.add_argument('--replay', default='')
    ap.add_argument('--digest-only', action='store_true')
    a = ap.parse_args(argv)
    faulthandler.enable()
    prop = load_prop(a.prop)
    out = sys.stdout

    def emit(obj):
        out.write(json.dumps(obj, default=str, ensure_ascii=True) + '\n')
        out.flush()

    if a.replay:
        rp = json.load(open(a.replay))
        faulthandler.dump_traceback_later(900, exit=True)
        try:
            if a.digest_only and rp.get('history'):
                # the violation needs what earlier sessions left behind in this process: re-run the lane's history first
                hst = rp['history']
                for idx in hst['indices']:
                    try:
                        execute_guarded(prop, prop.generate(run_seed(hst['base_seed'], a.prop, idx), hst['tier'], idx), 120)
                    except Exception:
                        pass
                r = execute_guarded(prop, rp['original_scenario'], 120)
                emit({'type': 'replay', 'violations': r['violations'], 'digest': r.get('digest'), 'with_history': True})
                return 0
            r = execute_guarded(prop, rp['scenario'], 120)
            emit({'type': 'replay', 'violations': r['violations'], 'digest': r.get('digest')})
        except RunTimeout:
            emit({'type': 'replay', 'violations': [{'sig': prop.ID + '/timeout', 'trigger': 'run-timeout', 'detail': ''}]})
        return 0

    if a.indices:
        indices = [int(x) for x in a.indices.split(',') if x]
    elif a.budget:
        indices = None
    else:
        indices = list(range(a.lane, a.count, a.lanes))
    agg = {'counters': {}, 'nt': set(), 'inter': set(), 'states': set(), 'runs': 0, 'evals': 0, 'sim_us': 0,
           'samples': [], 'violations': 0}
    t_end = time.time() + a.budget if a.budget else None
    idx = a.lane
    pos = 0
    seen_keys = set()
    executed = []
    while True:
        if indices is not None:
            if pos >= len(indices):
                break
            idx = indices[pos]
            pos += 1
        else:
            if time.time() >= t_end:
                break
        seed = run_seed(a.seed, a.prop, idx)
        faulthandler.dump_traceback_later(600, exit=True)
        try:
            sc = prop.generate(seed, a.tier, idx)
            r = execute_guarded(prop, sc, getattr(prop, 'RUN_LIMIT_S', 90))
        except RunTimeout:
            r = {'violations': [{'sig': a.prop + '/timeout', 'trigger': 'run-timeout',
                                 'detail': 'run exceeded wall limit'}], 'counters': {}, 'digest': 'timeout'}
            if not getattr(prop, 'TIMEOUT_IS_VIOLATION', False):
                emit({'type': 'harness-error', 'index': idx, 'seed': seed, 'what': 'run wall-timeout'})
                return 2
        except Exception:
            emit({'type': 'harness-error', 'index': idx, 'seed': seed, 'what': traceback.format_exc()})
            return 2
        faulthandler.cancel_dump_traceback_later()
        history = list(executed)
        executed.append(idx)
        if a.digest_only:
            emit({'type': 'digest', 'index': idx, 'digest': r.get('digest'), 'canon': r.get('canon')})
            if indices is None:
                idx += a.lanes
            continue
        agg['runs'] += 1
        agg['evals'] += r.get('evals', 1)
        agg['sim_us'] += r.get('sim_us', 0)
        for k, v in r.get('counters', {}).items():
            agg['counters'][k] = agg['counters'].get(k, 0) + v
        for k in r.get('nt_keys', []):
            agg['nt'].add(h64(k))
        if r.get('inter_key') is not None:
            agg['inter'].add(h64(r['inter_key']))
        for s in r.get('states', []):
            agg['states'].add(h64(s))
        if len(agg['samples']) < 2 and r.get('sample') is not None:
            agg['samples'].append(r['sample'])
        emit({'type': 'digest', 'index': idx, 'digest': r.get('digest'), 'canon': r.get('canon')})
        if r['violations']:
            agg['violations'] += len(r['violations'])
            for v in r['violations']:
                k = vkey(v)
                if k in seen_keys:
                    continue
                seen_keys.add(k)
                faulthandler.dump_traceback_later(900, exit=True)
                small = shrink(prop, sc, k, getattr(prop, 'SHRINK_BUDGET_S', 25))
                faulthandler.cancel_dump_traceback_later()
                try:
                    r2 = execute_guarded(prop, small, 60)
                    v2 = [x for x in r2['violations'] if vkey(x) == k]
                    v_out = v2[0] if v2 else v
                except Exception:
                    v_out = v
                emit({'type': 'violation', 'index': idx, 'seed': seed, 'key': k, 'violation': v_out,
                      'scenario': small, 'minimised_from': {f: len(sc.get(f, [])) for f in ('intents', 'faults')},
                      'hashseed': os.environ.get('PYTHONHASHSEED'), 'world': os.environ.get('VERIF_WORLD') or None,
                      'original_scenario': sc, 'original_violation': v,
                      'history': {'indices': history, 'base_seed': a.seed, 'tier': a.tier}})
            if len(seen_keys) >= (1 if a.tier == 'quick' else 3):
                break
        if indices is None:
            idx += a.lanes
    if not a.digest_only:
        emit({'type': 'summary', 'lane': a.lane, 'runs': agg['runs'], 'evals': agg['evals'], 'sim_us': agg['sim_us'],
              'counters': agg['counters'], 'nt': sorted(agg['nt']), 'inter': sorted(agg['inter']),
              'states': sorted(agg['states']), 'samples': agg['samples'], 'violations': agg['violations']})
    return 0


# ------------------------------------------------------------------------------- orchestration

def known_findings():
    p = os.path.join(VERIF, 'known_findings.json')
    if not os.path.exists(p):
        return []
    return json.load(open(p)).get('findings', [])


def spawn(prop_id, extra, hashseed, repo, world=None):
    env = dict(os.environ)
    env['VERIF_WORLD'] = world or ''
    env['PYTHONHASHSEED'] = str(hashseed)
    env['PYTHONDONTWRITEBYTECODE'] = '1'
    env['VERIF_REPO'] = repo
    env['PYTHONPATH'] = VERIF
    cmd = [PY, '-u', os.path.join(VERIF, 'sim', 'worker.py'), '--prop', prop_id] + extra
    return subprocess.Popen(cmd, stdout=subprocess.PIPE, stderr=subprocess.PIPE, env=env, cwd=VERIF, text=True,
                            encoding='utf-8', errors='backslashreplace')


def collect(procs, wall):
    """-> (records per proc, errors)"""
    deadline = time.time() + wall
    outs = []
    errors = []
    for p in procs:
        left = max(1, deadline - time.time())
        try:
            so, se = p.communicate(timeout=left)
        except subprocess.TimeoutExpired:
            p.kill()
            so, se = p.communicate()
            errors.append('worker wall-timeout; stderr tail: ' + se[-2000:])
        recs = []
        for line in so.splitlines():
            try:
                recs.append(json.loads(line))
            except ValueError:
                errors.append('unparseable worker output: ' + line[:200])
        if p.returncode not in (0,):
            hs = [r for r in recs if r.get('type') == 'harness-error']
            errors.append('worker exit %s: %s' % (p.returncode, (hs[0]['what'] if hs else se[-3000:])))
        outs.append(recs)
    return outs, errors


def _safe(x):
    return str(x).encode('utf-8', 'backslashreplace').decode('utf-8')


def check_main(argv):
    import argparse
    try:
        sys.stdout.reconfigure(errors='backslashreplace')
    except Exception:
        pass
    ap = argparse.ArgumentParser(prog='check')
    ap.add_argument('prop')
    ap.add_argument('--tier', default=os.environ.get('VERIF_TIER', 'quick'))
    ap.add_argument('--replay', default='')
    ap.add_argument('--runs', type=int, default=0)
    ap.add_argument('--budget', type=float, default=0)
    ap.add_argument('--no-evidence', action='store_true')
    a = ap.parse_args(argv)
    pid = a.prop.upper()
    repo = os.environ.get('VERIF_REPO', '/repo')
    sys.path.insert(0, VERIF)
    os.environ['VERIF_REPO'] = repo
    prop = load_prop(pid)
    base = int(os.environ.get('VERIF_SEED', DEFAULT_SEED))
    t0 = time.time()

    if a.replay:
        rp = json.load(open(a.replay))
        p = spawn(pid, ['--replay', a.replay, '--seed', '0'] + (['--digest-only'] if rp.get('needs_process_history') else []),
                  rp.get('hashseed', 0), repo, world=rp.get('world'))
        outs, errors = collect([p], 1800)
        if errors:
            print('HARNESS-ERROR ' + '; '.join(errors))
            return 2
        got = [r for r in outs[0] if r.get('type') == 'replay']
        keys = [vkey(v) for r in got for v in r['violations']]
        if rp['key'] in keys:
            print('VIOLATION property=%s replay=%s' % (pid, a.replay))
            for r in got:
                for v in r['violations']:
                    if vkey(v) == rp['key']:
                        print('  ' + v['sig'] + ': ' + str(v.get('detail'))[:1500])
            return 1
        print('NOT-REPRODUCED (%s); observed: %s' % (rp['key'], keys))
        return 0

    tier = a.tier if a.tier in ('quick', 'thorough') else 'quick'
    ncpu = os.cpu_count() or 1
    nproc = min(LANES, ncpu)
    count = a.runs or prop.RUNS.get(tier, 0)
    budget = a.budget or (float(os.environ.get('VERIF_BUDGET_S', prop.BUDGET_S.get(tier, 0) if hasattr(prop, 'BUDGET_S') else 0)) if tier == 'thorough' else 0)
    procs = []
    gdb_lanes = tuple(getattr(prop, 'GDB_LANES', ()))      # lanes of a log-world property that run its GDB-world variant
    log_lanes = tuple(getattr(prop, 'LOG_LANES', ()))      # lanes of a GDB-world property that run without the fake gdb module

    def world_of(lane):
        return 'gdb' if lane in gdb_lanes else ('log' if lane in log_lanes else None)
    # main batch: lane k handled by process k % nproc ... one process per lane keeps hashseed per lane
    for lane in range(LANES):
        extra = ['--tier', tier, '--seed', str(base), '--lane', str(lane), '--lanes', str(LANES)]
        if budget:
            extra += ['--budget', str(budget)]
        else:
            extra += ['--count', str(count)]
        procs.append(spawn(pid, extra, lane_hashseed(base, lane), repo, world=world_of(lane)))
    wall = (budget + 900) if budget else getattr(prop, 'QUICK_WALL_S', 1500)
    outs, errors = collect(procs, wall)
    # determinism self-test: first D indices again, same hashseed (exact) and different hashseed (canonical)
    D = getattr(prop, 'DETERMINISM_RUNS', 32)
    D2 = min(8, D)
    det_errors = []
    if not errors:
        first = {}
        for recs in outs:
            for r in recs:
                if r.get('type') == 'digest':
                    first[r['index']] = r
        idxs = [i for i in range(D) if i in first]
        dprocs = []
        groups = {}
        for i in idxs:
            groups.setdefault(i % LANES, []).append(i)
        for lane, ii in sorted(groups.items()):
            dprocs.append(spawn(pid, ['--tier', tier, '--seed', str(base), '--indices', ','.join(map(str, ii)),
                                      '--digest-only'], lane_hashseed(base, lane), repo, world=world_of(lane)))
        ii2 = [i for i in idxs if i % LANES not in gdb_lanes][:D2]
        if ii2:
            dprocs.append(spawn(pid, ['--tier', tier, '--seed', str(base), '--indices', ','.join(map(str, ii2)),
                                      '--digest-only'], lane_hashseed(base, 99, 1), repo))
        douts, derrs = collect(dprocs, 900)
        errors += derrs
        for k, recs in enumerate(douts):
            other_hash = (k == len(douts) - 1 and bool(ii2))
            for r in recs:
                if r.get('type') != 'digest':
                    continue
                f = first[r['index']]
                if other_hash:
                    if r['canon'] != f['canon']:
                        det_errors.append('index %d canonical digest differs under another PYTHONHASHSEED' % r['index'])
                elif r['digest'] != f['digest']:
                    det_errors.append('index %d digest differs between two executions' % r['index'])
    if det_errors:
        errors.append('harness nondeterministic: ' + '; '.join(det_errors[:5]))

    # aggregate
    agg = {'runs': 0, 'evals': 0, 'sim_us': 0, 'counters': {}, 'nt': set(), 'inter': set(), 'states': set(),
           'samples': [], 'violations': 0}
    viols = []
    for recs in outs:
        for r in recs:
            if r.get('type') == 'summary':
                agg['runs'] += r['runs']
                agg['evals'] += r['evals']
                agg['sim_us'] += r['sim_us']
                agg['violations'] += r['violations']
                for k, v in r['counters'].items():
                    agg['counters'][k] = agg['counters'].get(k, 0) + v
                agg['nt'].update(r['nt'])
                agg['inter'].update(r['inter'])
                agg['states'].update(r['states'])
                if len(agg['samples']) < 3:
                    agg['samples'] += r['samples'][:1]
            elif r.get('type') == 'violation':
                viols.append(r)
    wall_s = time.time() - t0

    # violations -> replay files; known findings
    kf = known_findings()
    status = 0
    reported = set()
    os.makedirs(os.path.join(VERIF, 'replays'), exist_ok=True)
    try:
        head = subprocess.run(['git', '-C', repo, 'rev-parse', '--short', 'HEAD'], capture_output=True, text=True).stdout.strip()
        dirty = bool(subprocess.run(['git', '-C', repo, 'status', '--porcelain', '-uno'], capture_output=True, text=True).stdout.strip())
    except Exception:
        head, dirty = '?', None
    known_hit = {}
    for v in sorted(viols, key=lambda r: (r['key'], len(json.dumps(r['scenario'])))):
        if v['key'] in reported:
            continue
        reported.add(v['key'])
        match = [f for f in kf if f.get('status') == 'known' and f['property'] == pid and f['key'] == v['key']]
        if match:
            known_hit[v['key']] = match[0]
            continue
        path = os.path.join(VERIF, 'replays', '%s-%d.json' % (pid, v['seed']))
        rp = {'format': 1, 'property': pid, 'key': v['key'], 'signature': v['violation']['sig'],
              'seed': v['seed'], 'hashseed': int(v['hashseed'] or 0), 'world': v.get('world'), 'scenario': v['scenario'],
              'observed': v['violation'].get('detail'), 'repo_head': head, 'repo_dirty': dirty,
              'minimised_from': v['minimised_from']}
        json.dump(rp, open(path, 'w'), indent=1, default=str, ensure_ascii=True)
        # confirm in a fresh interpreter
        p = spawn(pid, ['--replay', path, '--seed', '0'], rp['hashseed'], repo, world=rp.get('world'))
        routs, rerrs = collect([p], 600)
        keys = [vkey(x) for r in (routs[0] if routs else []) if r.get('type') == 'replay' for x in r['violations']]
        note = ''
        if not rerrs and v['key'] not in keys and v.get('history', {}).get('indices'):
            # not reproducible from a fresh process: does it need the state earlier sessions left behind in the process?
            rp['history'] = v['history']
            rp['original_scenario'] = v['original_scenario']
            rp['needs_process_history'] = True
            json.dump(rp, open(path, 'w'), indent=1, default=str)
            p = spawn(pid, ['--replay', path, '--seed', '0', '--digest-only'], rp['hashseed'], repo, world=rp.get('world'))
            routs, rerrs = collect([p], 1800)
            keys = [vkey(x) for r in (routs[0] if routs else []) if r.get('type') == 'replay' for x in r['violations']]
            note = (' [needs process history: reproduces only after the %d earlier sessions of its worker; state leaks '
                    'between sessions in one process]' % len(v['history']['indices']))
        if rerrs or v['key'] not in keys:
            errors.append('replay of %s did not reproduce %s (%s)' % (path, v['key'], rerrs or keys))
            continue
        print('VIOLATION property=%s replay=%s' % (pid, path))
        print('  %s: %s%s' % (v['key'], str(v['violation'].get('detail'))[:1200], note))
        status = 1
    for k, f in sorted(known_hit.items()):
        print('KNOWN-FINDING: property=%s %s' % (pid, f['what']))

    if errors:
        for e in errors:
            print('HARNESS-ERROR ' + e[:4000])
        if status == 0:
            status = 2

    if not a.no_evidence and agg['runs'] > 0:
        cov = {
            'evaluations': agg['evals'],
            'distinct_nontrivial': len(agg['nt']),
            'rule': prop.RULE,
            'samples': agg['samples'] or ['(no sample recorded)'],
            'simulated_runs': agg['runs'],
            'runs_per_hour': int(agg['runs'] / max(wall_s, 1e-6) * 3600),
            'evaluations_per_hour': int(agg['evals'] / max(wall_s, 1e-6) * 3600),
            'simulated_seconds_covered': agg['sim_us'] / 1e6,
            'distinct_interleavings': len(agg['inter']),
            'distinct_abstract_states': len(agg['states']),
            'fault_and_probe_counts': dict(sorted(agg['counters'].items())),
            'determinism_selftest': {'runs_repeated': D, 'under_other_hashseed': D2, 'mismatches': len(det_errors)},
            'components': {'real': prop.REAL, 'stubbed': prop.STUBBED},
            'worker_processes': LANES, 'base_seed': base,
            'known_findings_hit': sorted(known_hit),
        }
        ev = {'property_id': pid, 'tier': tier, 'seed': base, 'level': prop.LEVEL, 'coverage': cov,
              'assumptions': prop.ASSUMPTIONS, 'wall_s': round(wall_s, 2), 'violations': len(reported) - len(known_hit)}
        os.makedirs(os.path.join(VERIF, 'evidence'), exist_ok=True)
        json.dump(ev, open(os.path.join(VERIF, 'evidence', pid + '.json'), 'w'), indent=1, default=str)
    print('%s %s: runs=%d evaluations=%d distinct_nontrivial=%d violations=%d known=%d wall=%.1fs exit=%d' % (
        pid, tier, agg['runs'], agg['evals'], len(agg['nt']), len(reported) - len(known_hit), len(known_hit), wall_s, status))
    return status
