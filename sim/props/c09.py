"""C09 — GDB mode reports each libwayland closure faithfully, as log mode would."""
import struct
import random

from .. import logworld as L
from .. import world as W
from .. import printer as P
from .. import rig
from . import common
from . import c15
from . import c18

ID = 'C09'
WORLD = 'gdb'
LEVEL = 'exploration'
RUNS = {'quick': 6400}
BUDGET_S = {'thorough': 600}
RULE = ('one evaluation = one simulated GDB session in which closures from client- and server-side connections, sent and '
        'received, arrive in scheduler-chosen order (so every extraction happens with the struct-offset cache cold, warm, and '
        'warmed by the other side first); signatures come from the shipped protocols and from per-run synthetic interfaces with '
        'random signatures over i u f s o n a h, ? markers and version digits, 0-20 arguments (this part is input generation and '
        'is named as such). Each Message returned by the real extract.received_message()/sent_message() is compared with the '
        'ground-truth closure and with what the real parse.message() decodes from the libwayland printer model\'s rendering. '
        'Non-trivial = the session contains a closure with an argument following an array, or a null string/object, or closures '
        'from both sides; distinct = hash of the sequence of (side, direction, signature)')
REAL = ['backends/gdb_plugin/extract.py', 'backends/gdb_plugin/plugin.py', 'backends/libwayland_debug_output/parse.py (second clause)', 'core.*']
STUBBED = c15.STUBBED
ASSUMPTIONS = c15.ASSUMPTIONS + ['fixed-point expression semantics taken from real gdb 13.1 on x86-64 (checked: 256->1.0, 4174->16.3046875, -3200->-12.5)',
                                 'a disagreement with log mode is charged to the side that deviates from ground truth; log-side deviations are C01\'s and only counted']
SHRINK_FIELDS = ['intents']


def generate(seed, tier, index):
    rng = random.Random('%d/gen' % seed)
    nslots = rng.choice([1, 2, 2, 3])
    n = rng.randint(5, 60 if tier == 'quick' else 150)
    intents = []
    for s in range(nslots):
        intents.append(['act', s, 'get_registry', 0, 0, rng.randrange(1 << 30), 0])
    prof = L.KIND_PROFILES[rng.choice(['synth', 'synth', 'mixed', 'objects'])]
    for _ in range(n):
        s = rng.randrange(nslots)
        intents.append(['act', s, L.weighted(rng, prof), rng.randrange(1 << 30), rng.randrange(1 << 30), rng.randrange(1 << 30), 0])
        if rng.random() < 0.3:
            intents.append(['tick', L.gen_tick(rng)])
    sides = [rng.choice(['client', 'server']) for _ in range(nslots)]
    if nslots >= 2 and rng.random() < 0.7:
        sides[0], sides[1] = 'client', 'server'
        rng.shuffle(sides)
    cfg = {'nslots': nslots, 'sides': sides, 'synth': True, 'suppress': True,
           'dialect': rng.choice(P.PRESET_NAMES)}
    if rng.random() < 0.2 and not (tier == 'thorough' and index < 24):
        # Ctrl-C while the plugin reads the inferior's memory during one hit: that message is lost; every later closure must
        # still be reported faithfully
        cfg['ctrl_c_in_memory_read'] = [rng.randrange(nslots + n), rng.choice([0, 1, 2, 3, 5, 8, 12, 20, 30])]
    if tier == 'thorough' and index < 24:
        cfg['calibrate_real_gdb'] = True     # stub fidelity: the same hit sequence as a C program under the real gdb
    return {'prop': ID, 'seed': seed, 'config': cfg, 'intents': intents}


def expected_args(cl, slot_side, sent):
    out = []
    for a in cl.args:
        k = a.kind
        if k in 'iu':
            out.append(('Int', a.value))
        elif k == 'f':
            out.append(('Float', a.value / 256.0))
        elif k == 'h':
            out.append(('Fd', a.value))
        elif k == 's':
            out.append(('String', a.value) if a.value is not None else ('Null', None))
        elif k == 'o':
            decl = a.iface
            out.append(('Object', a.value.id, decl, False) if a.value is not None else ('Null', decl))
        elif k == 'n':
            out.append(('Object', a.value.id, a.iface if a.typed else None, True))
        elif k == 'a':
            data = a.value or b''
            n = len(data) // 4
            out.append(('Array', list(struct.unpack('<%di' % n, data[:4 * n]))))
    return out


def log_decode(cl, side, dialect_name, conn_tag):
    t = rig.tool()
    d = P.PRESETS[dialect_name]
    line = P.render(cl, d, side, conn_tag, 'Default Queue' if side == 'client' else None)
    from .. import gdbworld
    try:
        conn_id, msg = t['parse'].message(line)
    except Exception as e:  # noqa
        return line, None
    return line, gdbworld.snapshot_message(msg)


def kinds_agree(g, l, truth):
    """compare what the print-out retains. g: gdb-side arg, l: log-side arg. -> None (agree / not retained) or text"""
    if g[0] != l[0]:
        return 'kind %s vs %s' % (g[0], l[0])
    if g[0] in ('Int', 'Fd', 'String'):
        return None if g[1] == l[1] else 'value %r vs %r' % (g[1], l[1])
    if g[0] == 'Float':
        return None if abs(g[1] - l[1]) <= 5e-7 + 1e-9 * max(1.0, abs(g[1])) else 'value %r vs %r' % (g[1], l[1])     # %f keeps 6 decimals
    if g[0] == 'Object':
        if g[1] != l[1] or g[3] != l[3]:
            return 'object %r vs %r' % (g, l)
        if g[2] is not None and l[2] is not None and g[2] != l[2]:
            return 'object type %r vs %r' % (g[2], l[2])
        return None
    return None        # Null: the print-out keeps no type; Array: the print-out keeps no elements


def execute(sc):
    from .. import gdbworld
    V = common.Viol()
    sim = gdbworld.GdbSim(sc)
    sim.run()
    V.counters.update(sim.counters)
    if sim.start_exception:
        V.add('C09/exception', 'startup', sim.start_exception[-1500:])
    sigs = []
    nontrivial = False
    sides_seen = set()
    for h in sim.hits:
        if h['kind'] != 'message':
            continue
        cl = h['closure']
        slot = sim.slots[h['slot']]
        sent = h['sent']
        sides_seen.add(slot.side)
        kinds = ''.join(a.kind for a in cl.args)
        sigs.append('%s%s%s' % (slot.side[0], 's' if sent else 'r', cl.signature))
        if 'a' in kinds[:-1]:
            V.bump('probe_argument_after_array')
            nontrivial = True
        if any(a.kind == 's' and a.value is None for a in cl.args):
            V.bump('probe_null_string')
            nontrivial = True
        if any(a.kind == 'o' and a.value is None for a in cl.args):
            V.bump('probe_null_object')
        if any(a.kind == 'n' for a in cl.args) and not sent and slot.side == 'client':
            V.bump('probe_new_id_is_a_proxy_pointer')
        if any(ch in cl.signature for ch in '?0123456789'):
            V.bump('probe_signature_with_version_or_optional_marker')
        V.bump('closures_%s_%s' % (slot.side, 'sent' if sent else 'received'))
        if len(sim.extract.gdb_fast_access_map) == 0:
            pass
        if h.get('injected_fault'):
            V.bump('closures_lost_to_injected_ctrl_c')
            continue
        if h['exception'] and h.get('extracted') is None:
            V.add('C09/exception', c18.trigger_of(h['exception']) + ':' + kinds_after_array(kinds),
                  'extracting %s (signature %r, %s side, %s) raised: %s' % (cl.brief(), cl.signature, slot.side,
                                                                            'sent' if sent else 'received', h['exception'][-900:]))
            continue
        ex = h.get('extracted')
        if ex is None:
            continue
        conn_id, got = ex
        if conn_id != 'gdb_conn:' + hex(h['addr']):
            V.add('C09/header', 'connection-id', 'connection id %r, wl_connection is at %s' % (conn_id, hex(h['addr'])))
        want_type = None if sent else cl.target.iface
        if (got['name'], got['sent'], got['obj_id'], got['obj_type']) != (cl.name, sent, cl.target.id, want_type):
            V.add('C09/header', 'header', 'closure %s (%s) reported as name=%r sent=%r sender=%r interface=%r' % (
                cl.brief(), 'sent' if sent else 'received', got['name'], got['sent'], got['obj_id'], got['obj_type']))
            continue
        want = expected_args(cl, slot.side, sent)
        if len(got['args']) != len(want):
            V.add('C09/arg-count', 'count', 'closure %s signature %r: %d arguments reported, %d in the signature' % (
                cl.brief(), cl.signature, len(got['args']), len(want)))
            continue
        bad = False
        for j, (g, w) in enumerate(zip(got['args'], want)):
            if g[0] != w[0]:
                trig = 'null-string' if (w == ('Null', None) and cl.args[j].kind == 's') else '%s-as-%s' % (cl.args[j].kind, g[0])
                V.add('C09/arg-kind', trig, 'closure %s signature %r arg %d (%s): reported as %r, ground truth %r' % (
                    cl.brief(), cl.signature, j, cl.args[j].kind, g, w))
                bad = True
                break
            if g != w:
                V.add('C09/arg-value', cl.args[j].kind + kinds_after_array(kinds[:j + 1]),
                      'closure %s signature %r arg %d (%s): reported %r, ground truth %r' % (cl.brief(), cl.signature, j, cl.args[j].kind, g, w))
                bad = True
                break
        # second clause: agreement with log mode on what the print-out retains
        c = sim.world.conns[cl.conn]
        line, lg = log_decode(cl, slot.side, sc['config'].get('dialect', 'v1.18'), c.conn_tag)
        if lg is None:
            V.bump('log_side_discrepancy_line_not_decoded')
        elif not bad:
            if len(lg['args']) != len(got['args']):
                V.bump('log_side_discrepancy_arg_count')
            else:
                for j, (g, l) in enumerate(zip(got['args'], lg['args'])):
                    why = kinds_agree(g, l, want[j])
                    if why is None:
                        continue
                    # who deviates from ground truth?
                    if kinds_agree(want[j], l, want[j]) is not None:
                        V.bump('log_side_discrepancy_' + l[0])
                    else:
                        V.add('C09/log-disagreement', cl.args[j].kind, 'closure %s arg %d: GDB mode %r, log mode decodes %r from %r (%s)' % (
                            cl.brief(), j, g, l, line, why))
            if (lg['name'], lg['sent'], lg['obj_id']) != (got['name'], got['sent'], got['obj_id']):
                V.add('C09/log-disagreement', 'header', 'GDB mode header %r vs log mode %r for %r' % (got, lg, line))
    if sc['config'].get('calibrate_real_gdb') and not V.list:
        from .. import realgdb
        problems = realgdb.calibrate(sim)
        V.bump('calibration_real_gdb_sessions')
        if problems:
            raise rig.HarnessError('fake gdb disagrees with the real gdb: ' + '; '.join(problems)[:3000])
    if len(sides_seen) > 1:
        nontrivial = True
        V.bump('probe_both_sides_in_one_session')
    key = ' '.join(sigs)
    return {'violations': V.list, 'counters': V.counters, 'nt_keys': [key[:400]] if nontrivial else [], 'inter_key': key[:400],
            'states': sorted(set(sigs))[:50], 'digest': sim.rec.digest(), 'canon': sim.rec.digest(True),
            'sim_us': sim.clock.now_us, 'evals': 1,
            'sample': {'config': sc['config'], 'signatures': sigs[:12]}}


def kinds_after_array(kinds):
    return ':after-array' if 'a' in kinds[:-1] else ''
