#!/usr/bin/env python3
"""Regenerate MANIFEST.json from the table below (keeps it valid against the schema)."""
import json
import os

VERIF = os.path.dirname(os.path.dirname(os.path.abspath(__file__)))

TECH = 'deterministic simulation with fault injection (seeded schedules and faults, replayable scenario files)'

CHECKS = {
    'C08': dict(level='fault_enumeration', ref='4 C08',
        text='Seeded streams from simulated Wayland endpoints (with program chatter, both --supress settings, file / pipe / run mode) are '
             'fed to the real main.main through a simulated raw stream under the real BufferedReader/TextIOWrapper; every truncation '
             'point of small streams (thorough) or line boundaries plus 64 random interior offsets (quick) is enumerated as an EOF fault, '
             'and raw reads as KeyboardInterrupt faults. Conservation (target, message name, direction and the connection letter of every message line), order, passthrough text, prefix-on-cut, closed-notices and the '
             'pace of output relative to raw reads are judged against ground truth. Chatter includes program output with its own colour sequences and cut-off fronts of message lines (open string argument). Sampled streams, enumerated crash points.',
        note='Trusted: libwayland printer model, chatter templates that cannot match the message grammar, Python text I/O; stdout block buffering below stream.Std is outside the seam.',
        technique=TECH + '; truncation/interrupt points enumerated per sampled stream'),
    'C02': dict(level='exploration', ref='4 C02',
        text='Seeded well-formed histories from simulated client/server endpoints that allocate ids as libwayland does (LIFO reuse of client ids only '
             'after delete_id, free reuse of server-range ids, registry binds of known/unknown interfaces, objects created by requests and events) are '
             'run through the real tool; after every message the target, every object / new-id argument and the delete_id subject the tool attributes '
             '(Connection.messages() objects and the type@id+letters tokens on output lines) are compared with ground truth; identity/bijection of objects at end of run. A quarter of the runs (lanes 12-15) feed the same kind of history as libwayland closures through the GDB world (real plugin.py / extract.py on the fake gdb, messages from foreign threads included) and judge it with the same oracle. Deep runs recycle one id more than 702 times (three-letter labels). One run in nine adds stray messages on client ids nothing has created yet (a log that started late), ids the allocator hands out later: they must stay unresolved and create nothing.',
        note='Trusted: wl_map id-allocation model, printer model, independent XML reader. Sampling of histories, not proof; no transport faults because the quantifier is well-formed histories (the stray-message runs are ill-formed on purpose and judged only on what every history must satisfy).',
        technique=TECH),
    'C03': dict(level='exploration', ref='4 C03',
        text='Same simulated world with the simulator clock supplying timestamps; after every message the alive flag of every reachable object is compared with the '
             'ground-truth lifetime (delete_id for client ids, silent death on re-use for server-range ids), no resurrection, at most one live object per id, '
             'destruction annotations present exactly on delete_id lines naming the right incarnation with lifespan = destroy - create within print precision. A quarter of the runs (lanes 12-15) feed the same kind of history as libwayland closures through the GDB world (real plugin.py / extract.py on the fake gdb, messages from foreign threads included) and judge it with the same oracle. Deep runs (> 702 incarnations of one id) and stray messages on never-created ids as in C02.',
        note='Trusted: as C02 plus the simulated clock; lifespans compared at 0.5e-4 s tolerance.',
        technique=TECH),
    'C04': dict(level='exploration', ref='4 C04',
        text='k independent per-connection histories (content fixed by (seed, index)) are merged by the seeded scheduler into one stream (2-6, sometimes 27-30 connections, same ids live on all of them); '
             'names in order of first appearance, exactly one New/Closed notice, role, `connection` listing, per-connection C02/C03 oracles, and equality of each connection\'s projected view with a solo replay of that connection in a fresh tool instance. '
             'Workload B drives open/message/close/re-open sequences on the connection-id sink with real parsed messages. Further workloads: logs that start late (first lines missing), one injected output-write fault at the connection-id sink (nothing announced or closed twice, open connections reachable), and in the thorough tier an exhaustive walk over all interleavings of tiny cases.',
        note='Trusted: as C02; role judged absolutely only when the first message is get_registry; Closed notices unordered.',
        technique=TECH + '; seeded interleavings'),
    'C06': dict(level='exploration', ref='4 C06',
        text='Component rig (real Parser + ConnectionManager + Controller): a multi-connection history streams in while a scripted user changes the filter and the selected connection '
             'between two reads at scheduler-chosen points; every arriving message is stamped with the reference (filter, selection) in force and the shown message lines are compared in both directions '
             '(nothing matching hidden, nothing else shown, once, in order); Connection.messages() and a closing `connection all` + `list *` must contain every message. Every sixth run adds messages on objects the tool cannot resolve (under selection changes, filter *); a quarter of the streams end without a final newline; in the GDB lanes a fifth of the sessions carry one output-side fault (Ctrl-C inside the write of the k-th live message line: that line may be lost on the screen, the message stays recorded, everything afterwards is judged as before); app ids that collide with connection names are aimed at `connection <x>`. A quarter of the runs (lanes 12-15) drive the same session model through the GDB world: the real plugin.py command and message paths on the fake gdb, commands typed at user interrupts.',
        note='Trusted: three-valued reference matcher over the documented subset (don\'t-cares counted); simulated endpoints and printer. Commands are injected between two readline() calls of the real parse loop.',
        technique=TECH + '; user actor scheduled between reads'),
    'C11': dict(level='exploration', ref='4 C11',
        text='`list [X:] [matcher] [~ N]` issued at scheduler-chosen points of streaming histories (selected connection or none, N absent/0/1../beyond, repeated); listed lines, last-N rule and the '
             'matched/didn\'t/not-checked identity are compared with the reference evaluation of the recorded ground-truth history; side effects are detected by the filter/selection/breakpoint model on subsequent traffic. Every sixth run lists histories that contain messages on objects the tool cannot resolve, with and without a selected connection. In the GDB lanes a seventh of the sessions carry a Ctrl-C inside the output of a listing or help command: the abandoned command must leave filter, breakpoint, selection and the record as they were, which the rest of the session shows. A quarter of the runs (lanes 12-15) drive the same session model through the GDB world: the real plugin.py command and message paths on the fake gdb, commands typed at user interrupts.',
        note='Trusted: reference matcher (queries with a don\'t-care message are checked for inclusion only and counted).',
        technique=TECH + '; user actor scheduled between reads'),
    'C12': dict(level='exploration', ref='4 C12',
        text='Sequences of 1-8 filter/breakpoint commands (alternatives only, exclusions only, both, `*`, `!`, malformed) interleaved with traffic; a reference accumulated state '
             '(constant * / constant ! / alternatives + exclusions) judges every later message (shown? Stopped-at?) and every no-argument `list` over the whole recorded history; malformed commands must report an error and leave the state unchanged; `list` commands with explicit matchers (exclusion-only ones included) in between must leave it unchanged too. A quarter of the runs (lanes 12-15) drive the same session model through the GDB world: the real plugin.py command and message paths on the fake gdb, commands typed at user interrupts.',
        note='Trusted: reference matcher; one deliberate don\'t-care (alternatives swallowed by an earlier `*`), counted in evidence.',
        technique=TECH + '; user actor scheduled between reads'),
    'C14': dict(level='exploration', ref='4 C14',
        text='Two parts, stated plainly: (1) a finite enumeration, not simulation: number_to_letter_id/letter_id_to_number against an independent bijective base-26 for all 475254 indexes through four letters plus 100000 sampled up to 1e18; '
             '(2) by simulation: sessions with heavy id churn on 1-30 connections in which every id+letters label and connection name harvested from the tool\'s own output is fed back by the user actor as `list X: <label>` / `list X:`; '
             'the listed messages must be exactly the ground-truth messages on/mentioning/creating/destroying that incarnation (resp. of that connection); no two distinct objects display the same label. A further workload drives duplicate opens / closes / re-opens on the connection-id sink and checks name uniqueness and `list X:`. Deep runs recycle one id more than 702 times and type three-letter labels back. One run in five adds messages that name the id of a live object under another interface (unresolvable, shown as id?): a connection-qualified label must not select them; one in ten adds an ill-formed second get_registry on a live registry id and judges only the uniqueness clauses.',
        note='Trusted: label scraping from output lines (string arguments removed), ground-truth incarnation tables. Histories reach three-letter labels (> 702 incarnations of one id) in the deep runs, four-letter ones only in the enumeration.',
        technique=TECH + '; labels harvested from output and fed back by the user actor (bijection part: exhaustive enumeration)'),
    'C16': dict(level='exploration', ref='4 C16',
        text='The clock is the injected fault: each simulated session (filters make the shown sequence a strict subsequence; listings) is replayed, same seed, under epoch 0 and a second epoch in [1, 2^32) us and with both decimal marks; '
             'displays must be identical up to one unit of the last digit. Absolute oracle: shown time = log time - first log time; a separator with the right value appears between consecutively shown messages (live or within one listing) iff the '
             'ground-truth gap exceeds 1 000 000 us (gaps generated on the us lattice around the threshold), never before the first line of a listing, never elsewhere. A fifth of the runs use non-monotonic logs (lines stamped earlier than their predecessors or than the first line); a separator between a listing and the next live message is accepted only if it is the gap between the two live messages. Sessions carry breakpoint commands, so a message may be stopped at while the filter hides it.',
        note='Deliberate don\'t-cares (counted): a gap of exactly 1 000 000 us; a live pair split by a non-empty listing. Trusted: simulated clock, printer model.',
        technique=TECH + '; clock-epoch shift and decimal-mark replay differential'),
    'C17': dict(level='exploration', ref='4 C17',
        text='Replay differential: the same simulated session (traffic, commands, transport faults drop/dup/swap/tear/garbage/id0 to reach unresolved objects, Unknown arguments, errors, warnings, empty listings) is executed twice with exactly the same schedule, '
             'with and without colour; coloured output minus SGR sequences (independent regex) must equal the plain output on both streams, the plain run must contain no ESC, and every matcher string, label, connection name and help-text command '
             'the coloured session printed is pasted back with its escapes while the plain text is typed in the plain session - the sessions must stay equal. An eighth of the runs add program output carrying its own escape sequences: both sides are then compared without SGR sequences and the plain run must hold exactly the sequences of the passed-through input lines, none of the tool\'s own.',
        note='Nothing in this property depends on a schedule; the simulator contributes exact replay and fault injection. Input chatter is ESC-free except in the runs that say otherwise.',
        technique=TECH + '; two-configuration replay differential'),
    'C13': dict(level='exploration', ref='4 C13',
        text='One byte stream is played through -l FILE, -p and -r PROG ARGS. In run mode subprocess.run is a simulated child writing to a simulated pipe; the helper thread is the real threading.Thread of run_program, '
             'parked and released one at a time at each sync point (child write / exit / close of the write end / reader raw read) as the seeded scheduler decides, with pipe capacities 16 B..64 KiB, write sizes from 1 byte, exit statuses 0..255 and ARGS made of wayland-debug\'s own option spellings. '
             'Displays must be equal line for line; argv verbatim, WAYLAND_DEBUG=1, inherited environment, untouched stdout, every byte consumed before the prompt, exit status, no deadlock. Streams may carry undecodable bytes and the runs may carry -f/-b; besides equality between modes the file-mode display must account for every line of the stream. Thorough tier: 8 sessions are repeated with a real child process through a real main.py -r (stub fidelity).',
        note='Trusted: the pipe/child model (EOF only when every holder of the write end has closed it). thread.join(timeout=1) is the only real-time element left.',
        technique=TECH + '; baton-passing thread schedules over a simulated pipe'),
    'C18': dict(level='exploration', ref='4 C18',
        text='Fault injection proper: well-formed simulated streams mutated by 1-20 transport faults (drop, dup, swap, tear, 64 KiB line, 5000-digit number, id 0, hostile look-alike lines, bit flips, inserted/deleted bytes, invalid UTF-8, NUL, truncation; random subset of kinds per run) '
             'in file, pipe (strict and surrogateescape stdin) and run mode: the run must end normally, consume the input to EOF, close every opened connection, within a wall budget. Generated matcher texts (alphabet soup, mutated valid matchers, deep nesting, Unicode) go through matcher.parse, the four commands and -f/-b; '
             'accepted matchers must print, simplify and evaluate on every recorded message of a faulty session. Printable command lines are typed at arbitrary session states. The output streams refuse text a UTF-8 terminal could not encode; workloads include exponent numbers (1e999), a battery of plainly valid matchers evaluated on every recorded message, and command lines thousands of characters long.',
        note='The tool reporting an internal error on its own output and carrying on is not an abort. EOF at the prompt and a missing program are outside the property.',
        technique=TECH),
    'C09': dict(level='exploration', ref='4 C09',
        text='GDB world: the real plugin.py and extract.py run against an in-process fake `gdb` module over byte-addressed fake inferior memory holding libwayland\'s structures (wl_closure, wl_message, wl_interface, union wl_argument, wl_array, wl_proxy, wl_resource, wl_client, wl_display, wl_connection). '
             'Closures from client- and server-side connections, sent and received, arrive in scheduler-chosen order (struct-offset cache cold / warm / warmed by the other side); signatures come from the shipped protocols and from per-run synthetic interfaces over i u f s o n a h with ? and version digits, 0-20 arguments. '
             'Every Message returned by extract.received_message()/sent_message() is compared field by field with the ground-truth closure, and with what the real parse.message() decodes from the libwayland printer model\'s rendering of the same closure. Thorough tier: 24 sessions are replayed as C programs under the real gdb 13 with the real plugin and must print the same lines (stub fidelity). A fifth of the runs inject a Ctrl-C (KeyboardInterrupt) inside the k-th read of the inferior\'s memory during one hit: that message is lost, every later closure must still be reported faithfully. Dispatched closures sometimes carry the other side\'s dispatcher further up the stack (nested compositor).',
        note='Caveat stated in DESIGN.md: the quantifier is over closures (inputs); the simulator contributes the stand-in peer (gdb + inferior) without which none of extract.py runs, and the history dimension (offset cache, mixed sides). The fake gdb is the trusted base; fixed-point expression semantics were taken from real gdb 13.1.',
        technique=TECH + '; in-process fake gdb and simulated inferior'),
    'C10': dict(level='exploration', ref='4 C10',
        text='GDB world: messages on 1-3 connections from 1-3 inferior threads interleaved by the seeded scheduler with user commands typed whenever the inferior is halted (breakpoint changes through every registered spelling, connection selection, list, help, garbage, wlresume, wlquit, plain gdb continue); '
             'gdb.execute("continue") re-enters the inferior loop synchronously as in real gdb. For every message the value returned by stop() and the Stopped-at notice are compared with the reference breakpoint state and selection; for every command, continue is executed iff it was resume, quit iff quit, otherwise neither. '
             'A second workload drives TerminalUI.run_until_stopped with scripted input and counts prompts; One session in seven carries an output-side fault: Ctrl-C inside the k-th gdb.write of a command that changes nothing (list, help, junk) - the command is abandoned and the program must stay halted. On one lane (no fake gdb module) the prompt is reached through main.main in file mode, also with open() failing with FileNotFoundError (I/O fault). Sessions also contain wl_connection_destroy events (never a halt there; selection survives the close of the selected connection), app-id/name collisions and state-neutral garbage commands.',
        note='Trusted: fake gdb (re-entrant continue), reference matcher (don\'t-cares counted). A command typed while the program runs is modelled as a user interrupt followed by the command.',
        technique=TECH + '; in-process fake gdb, user actor scheduled at halts'),
    'C15': dict(level='exploration', ref='4 C15',
        text='GDB world event sequences: messages on any of several wl_connection addresses from any thread, wl_connection_destroy of open, already closed and never-seen connections, address re-use through a LIFO heap. '
             'Notices (New on the first message with the role from get_registry direction, Closed exactly when an open one is destroyed, silence for other destroys), fresh names and object tables after re-use (per-connection C02/C03 oracles), connections() bookkeeping, no exception out of any stop(). One output-side fault is injected where the unchanged tree is robust (Ctrl-C inside gdb.write of a Closed notice); input-side faults (the k-th gdb.selected_thread() call raising, Ctrl-C inside the j-th read of the inferior\'s memory during one hit) lose one message and are followed by a reduced oracle. Thorough tier: 16 sessions are replayed as C programs under the real gdb 13 with the real plugin (stub fidelity).',
        note='Trusted: fake gdb and simulated inferior; an exception raised by stop() halts the inferior as in real gdb.',
        technique=TECH + '; in-process fake gdb and simulated inferior'),
}

NOT_APPLICABLE = [
    ('C01', 'pure function of one log line: no schedule, clock, fault or history for a simulator to drive (DESIGN.md section 6)'),
    ('C05', 'pure function of (matcher text, message); deciding it is grammar-based input generation, not simulation (DESIGN.md section 6)'),
    ('C07', 'static table look-ups over the shipped protocol XML, settled by exhaustive enumeration, not by schedules or faults (DESIGN.md section 6)'),
    ('C19', 'pure function of argv; nothing concurrent, timed or faulty to simulate (DESIGN.md section 6)'),
]

ALL = ['C%02d' % i for i in range(1, 20)]


def main():
    checks = []
    for pid in sorted(CHECKS):
        c = CHECKS[pid]
        checks.append({
            'property_id': pid,
            'quick_cmd': './check %s --tier quick' % pid,
            'thorough_cmd': './check %s --tier thorough' % pid,
            'evidence_file': '/verif/evidence/%s.json' % pid,
            'replay_cmd_template': './check %s --replay {path}' % pid,
            'engine': 'sim',
            'level_claimed': {'category': c['level'], 'text': c['text'], 'design_ref': c['ref']},
            'level_note': c['note'],
            'technique': c['technique'],
        })
    na = [{'property_id': p, 'reason': r} for p, r in NOT_APPLICABLE]
    claimed = set(CHECKS) | {p for p, _ in NOT_APPLICABLE}
    for p in ALL:
        if p not in claimed:
            na.append({'property_id': p, 'reason': 'check not built yet in this framework (planned, see DESIGN.md section 4); not claimed until its check exists'})
    m = {
        'version': 1,
        'setup_cmd': 'true',
        'hooks': {
            'guard': 'WAYLAND_DEBUG_VERIF',
            'enable': 'no hooks in /repo: every seam is an injected parameter or a module attribute rebound by the rig (main.open, sys.stdin, runner.os, runner.subprocess, runner.threading (join timeout), time.perf_counter, a fake gdb module on sys.path)',
            'baseline_off_cmd': 'cd /repo && /venv/bin/python -m pytest -ra -q -p no:cacheprovider --timeout=900 --continue-on-collection-errors',
            'source_commits': [],
            'add_only': True,
        },
        'engines': [{'name': 'sim', 'path': '/verif/sim', 'serves_properties': sorted(CHECKS),
                     'kind_free_text': 'deterministic simulator: simulated Wayland endpoints, libwayland printer model, seeded scheduler, fault-injecting transport, run-mode thread/pipe shim, fake gdb; real tool code runs unmodified'}],
        'checks': checks,
        'not_applicable': sorted(na, key=lambda x: x['property_id']),
        'notes': 'interpreter /venv/bin/python; checks read /repo (or $VERIF_REPO) at run time, nothing is built or cached; exit 2 = harness error',
    }
    json.dump(m, open(os.path.join(VERIF, 'MANIFEST.json'), 'w'), indent=1)


if __name__ == '__main__':
    main()
