#!/bin/bash
# usage: tools/seedregress.sh [PROP ...]   re-runs the own check of every stored seeded change (seeded/<PROP>-<n>) against a
# scratch copy with the change applied; prints one line per change.  Suite and demo are not repeated (confirmed when stored).
cd "$(dirname "$0")/.."
for d in seeded/C*-*; do
  id=$(basename $d); p=${id%%-*}
  if [ $# -gt 0 ] && [[ ! " $* " =~ " $p " ]]; then continue; fi
  want=$(python3 -c "import json;print(json.load(open('$d/meta.json')).get('caught_by_check') or '-')")
  got=$(tools/seedcheck.py $d $p --check-only 2>/dev/null | python3 -c "import json,sys
try:
    r=json.load(sys.stdin); c=r['checks']['$p']; print('CAUGHT' if c['caught'] else 'missed', (c.get('detail') or '')[:100].replace('\n',' '))
except Exception as e: print('evaluation-failed', e)")
  echo "$id own-check-expected=$([ "$want" = "$p" ] && echo caught || echo no) $got"
done
