"""Three-valued reference matcher over ground-truth closures (DESIGN.md 2.6).

Matchers are generated as *structures* (never parsed from text by my code); render() gives the text the
user actor types, evaluate() the documented meaning: 'must' / 'mustnot' / 'dc' (don't-care where
matchers.md does not decide).  Covers: type (with * wildcards), id, id+letters, .name, X: prefix,
.new / .destroyed, (name=), (name=int), (int), ("str"), (nil), comma alternatives, ! exclusions, * and !.
"""
import re
from . import world as W

MUST, MUSTNOT, DC = 'must', 'mustnot', 'dc'


def glob_match(pat, text):
    if text is None:
        return False
    return re.match('^' + re.escape(pat).replace(r'\*', '.*') + '$', text) is not None


def v_or(vals):
    vals = list(vals)
    if MUST in vals:
        return MUST
    if DC in vals:
        return DC
    return MUSTNOT


def v_and(a, b):
    if a == MUSTNOT or b == MUSTNOT:
        return MUSTNOT
    if a == DC or b == DC:
        return DC
    return MUST


def v_not(a):
    return {MUST: MUSTNOT, MUSTNOT: MUST, DC: DC}[a]


# ----------------------------------------------------------------------------- rendering

def render_obj(o):
    if o is None:
        return ''
    if o[0] == 'type':
        return o[1]
    if o[0] == 'id':
        return str(o[1])
    if o[0] == 'idgen':
        return '%d%s' % (o[1], W.letters(o[2]))
    raise AssertionError(o)


def render_atom(a):
    k = a[0]
    if k == 'name':
        return '%s=' % a[1]
    if k == 'nameint':
        return '%s=%d' % (a[1], a[2])
    if k == 'int':
        return '%d' % a[1]
    if k == 'nil':
        return 'nil'
    if k == 'str':
        return '"%s"' % a[1]
    raise AssertionError(a)


STAR_ALIASES = ['*.*', '.', '()', '.*', '*.', '*()', '.()', '(*)', '*']


def render_pattern(p):
    if p.get('staralias'):
        return p['staralias']
    s = ''
    if p.get('conn'):
        s += p['conn'] + ': '
    s += render_obj(p.get('obj'))
    if p.get('bare'):
        return s
    if p.get('name') is not None:
        s += '.' + p['name']
    if p.get('args') is not None:
        s += '(' + ', '.join(render_atom(a) for a in p['args']) + ')'
    return s


def render(m):
    if m['kind'] == 'star':
        return '*'
    if m['kind'] == 'bang':
        return '!'
    s = ', '.join(render_pattern(p) for p in m['alts'])
    if m['excl']:
        s += ' ! ' + ', '.join(render_pattern(p) for p in m['excl'])
    return s


# ----------------------------------------------------------------------------- evaluation

def obj_value(o, inc):
    """does object atom o describe incarnation inc?"""
    if o is None:
        return True
    if o[0] == 'type':
        return glob_match(o[1], inc.iface)
    if o[0] == 'id':
        return inc.id == o[1]
    if o[0] == 'idgen':
        return inc.id == o[1] and inc.gen == o[2]
    raise AssertionError(o)


def arg_name(cl, j):
    """argument names exist only where the tool has a protocol description (not for wl_registry.bind)"""
    if not cl.known_iface:
        return None
    if cl.target.iface == 'wl_registry' and cl.name == 'bind':
        return None
    return cl.args[j].name


def atom_value(a, cl):
    k = a[0]
    res = []
    for j, g in enumerate(cl.args):
        nm = arg_name(cl, j)
        if k == 'name':
            res.append(MUST if nm == a[1] else MUSTNOT)
        elif k in ('nameint', 'int'):
            if k == 'nameint' and nm != a[1]:
                res.append(MUSTNOT)
                continue
            v = a[2] if k == 'nameint' else a[1]
            if g.kind in 'iu':
                res.append(MUST if g.value == v else MUSTNOT)
            elif g.kind == 'f':
                res.append(DC if g.value == v * 256 else MUSTNOT)
            elif g.kind == 'h':
                res.append(DC if g.value == v else MUSTNOT)
            elif g.kind in 'on' and g.value is not None:
                res.append(DC if g.value.id == v else MUSTNOT)
            elif g.kind == 'o' and g.value is None:
                res.append(DC if v == 0 else MUSTNOT)
            else:
                res.append(MUSTNOT)
        elif k == 'nil':
            if g.kind == 'o' and g.value is None:
                res.append(MUST)
            elif g.kind == 's' and g.value is None:
                res.append(DC)      # log mode cannot tell a null string from a null object
            else:
                res.append(MUSTNOT)
        elif k == 'str':
            if g.kind == 's' and g.value is not None:
                res.append(MUST if g.value == a[1] else MUSTNOT)
            else:
                res.append(MUSTNOT)
    return v_or(res) if res else MUSTNOT


def pattern_value(p, cl, conn_name):
    if p.get('staralias'):
        return MUST        # another spelling of "every message"
    if p.get('conn') and p['conn'] != conn_name:
        return MUSTNOT
    o = p.get('obj')
    if getattr(cl.target, 'orphan', False) and o is not None and o[0] == 'idgen' and cl.target.id == o[1]:
        # a message on an object the tool can not resolve (ill-formed history) is displayed as `type@id?`: it carries no
        # letters, so a connection-qualified label (`B: 7c`, C14) must not select it; without the connection the
        # documentation does not say what an id+letters atom means for it
        return MUSTNOT if p.get('conn') else DC
    if getattr(cl.target, 'orphan', False) and p.get('conn'):
        # the tool shows such a message without a connection name (it can not attach the object to a connection); whether a
        # connection-qualified matcher selects it is not decided for ill-formed histories
        return DC
    if p.get('bare'):
        vals = [MUST if obj_value(o, cl.target) else MUSTNOT]
        for g in cl.args:
            if g.kind in 'on' and g.value is not None:
                vals.append(MUST if obj_value(o, g.value) else MUSTNOT)
            elif g.kind == 'o' and g.value is None and o is not None and o[0] == 'type':
                # nil argument whose declared interface matches a type atom: "mentions"? undecided
                if g.iface is not None and glob_match(o[1], g.iface):
                    vals.append(DC)
            elif g.kind == 's' and g.value is None and o is not None and o[0] == 'type':
                vals.append(MUSTNOT)
        if cl.destroys is not None:
            vals.append(MUST if obj_value(o, cl.destroys) else MUSTNOT)
        return v_or(vals)
    name = p.get('name')
    r = MUST if obj_value(o, cl.target) else MUSTNOT
    if name:
        r = v_and(r, MUST if glob_match(name, cl.name) else MUSTNOT)
    if p.get('args') is not None:
        for a in p['args']:
            r = v_and(r, atom_value(a, cl))
    if name in ('new', 'destroyed'):
        # pseudo-messages; a real protocol message that happens to be called new/destroyed
        # (e.g. zxdg_imported_v2.destroyed) is selected by its name as any other message is (r above)
        if name == 'new':
            vals = [MUST if obj_value(o, g.value) else MUSTNOT for g in cl.args if g.kind == 'n']
        else:
            vals = [MUST if obj_value(o, cl.destroys) else MUSTNOT] if cl.destroys is not None else []
        pseudo = v_or(vals) if vals else MUSTNOT
        if p.get('args') and pseudo == MUST:
            pseudo = DC        # `.destroyed(args)` / `.new(args)`: the documentation does not say
        return v_or([pseudo, r])
    return r


def evaluate(m, cl, conn_name):
    if m['kind'] == 'star':
        return MUST
    if m['kind'] == 'bang':
        return MUSTNOT
    alt = v_or(pattern_value(p, cl, conn_name) for p in m['alts'])
    exc = v_or(pattern_value(p, cl, conn_name) for p in m['excl']) if m['excl'] else MUSTNOT
    return v_and(alt, v_not(exc))


# ----------------------------------------------------------------------------- generation

SAFE_STR = re.compile(r'^[A-Za-z0-9 ._\-]+$')
RESERVED_NAME_PREFIXES = ('new', 'destroyed')


class Vocab:
    """things that exist in a history, so that generated atoms select something"""

    def __init__(self, st, names):
        self.types = []
        self.ids = []
        self.idgens = []
        self.msgnames = []
        self.argnames = []
        self.ints = []
        self.nameints = []
        self.strs = []
        self.conns = sorted(names.values())
        seen = set()

        def add(lst, x):
            if (id(lst), x) not in seen:
                seen.add((id(lst), x))
                lst.append(x)
        for _, it in st.lines:
            if not isinstance(it, W.Closure):
                continue
            for inc in it.mentioned():
                add(self.types, inc.iface)
                add(self.ids, inc.id)
                add(self.idgens, (inc.id, inc.gen))
            add(self.msgnames, it.name)
            for j, g in enumerate(it.args):
                nm = arg_name(it, j)
                if nm:
                    add(self.argnames, nm)
                if g.kind in 'iu' and abs(g.value) < 10**9:
                    add(self.ints, g.value)
                    if nm:
                        add(self.nameints, (nm, g.value))
                if g.kind == 's' and g.value and SAFE_STR.match(g.value) and g.value.strip() == g.value:
                    add(self.strs, g.value)


def gen_obj(rng, voc, allow_none=True):
    r = rng.random()
    if allow_none and r < 0.15:
        return None
    if r < 0.5 and voc.types:
        t = rng.choice(voc.types)
        r2 = rng.random()
        if r2 < 0.25 and '_' in t:
            return ['type', t.split('_')[0] + '_*']
        if r2 < 0.35 and len(t) > 4:
            return ['type', '*' + t[-4:]]
        if r2 < 0.4:
            return ['type', 'no_such_type']
        return ['type', t]
    if r < 0.75 and voc.ids:
        return ['id', rng.choice(voc.ids)]
    if voc.idgens:
        i, g = rng.choice(voc.idgens)
        if rng.random() < 0.2:
            g = g + 1
        return ['idgen', i, g]
    return ['type', 'wl_display']


def gen_name(rng, voc):
    if not voc.msgnames:
        return 'sync'
    n = rng.choice(voc.msgnames)
    if rng.random() < 0.2 and '_' in n:
        pre = n.split('_')[0]
        if len(pre) >= 3 and not any(x.startswith(pre) for x in RESERVED_NAME_PREFIXES):
            return pre + '_*'
    return n


def gen_atom(rng, voc):
    r = rng.random()
    if r < 0.25 and voc.argnames:
        return ['name', rng.choice(voc.argnames)]
    if r < 0.45 and voc.nameints:
        n, v = rng.choice(voc.nameints)
        return ['nameint', n, v]
    if r < 0.7 and voc.ints:
        return ['int', rng.choice(voc.ints)]
    if r < 0.8:
        return ['nil']
    if voc.strs:
        return ['str', rng.choice(voc.strs)]
    return ['int', rng.choice([0, 1, 2])]


def gen_pattern(rng, voc):
    p = {'conn': None, 'bare': False, 'obj': None, 'name': None, 'args': None}
    if voc.conns and rng.random() < 0.25:
        p['conn'] = rng.choice(voc.conns + ['Z'])
    r = rng.random()
    if r < 0.35:
        p['bare'] = True
        p['obj'] = gen_obj(rng, voc, allow_none=bool(p['conn']) and rng.random() < 0.5)
        if p['obj'] is None and not p['conn']:
            p['obj'] = gen_obj(rng, voc, allow_none=False)
        return p
    p['obj'] = gen_obj(rng, voc)
    r = rng.random()
    if r < 0.15:
        p['name'] = 'new'
    elif r < 0.3:
        p['name'] = 'destroyed'
    elif r < 0.8:
        p['name'] = gen_name(rng, voc)
        if rng.random() < 0.25:
            p['args'] = [gen_atom(rng, voc) for _ in range(rng.randint(1, 2))]
    else:
        p['args'] = [gen_atom(rng, voc) for _ in range(rng.randint(1, 2))]
        if p['obj'] is None and rng.random() < 0.5:
            p['name'] = ''   # renders ".(...)" form
    return p


def gen_matcher(rng, voc, p_const=0.1, max_alts=3, max_excl=2, allow_excl=True):
    r = rng.random()
    if r < p_const / 2:
        return {'kind': 'star'}
    if r < p_const:
        return {'kind': 'bang'}
    alts = [gen_pattern(rng, voc) for _ in range(rng.randint(1, max_alts))]
    excl = []
    if allow_excl and rng.random() < 0.35:
        excl = [gen_pattern(rng, voc) for _ in range(rng.randint(1, max_excl))]
    return {'kind': 'list', 'alts': alts, 'excl': excl}
