"""The GDB world: a simulated inferior (threads, libwayland structures in fake memory, breakpoint hits)
driving the real plugin.py / extract.py through the fake `gdb` module.

Import only in GDB-world workers (sim/fakegdb must be on sys.path before the tool is imported)."""
import os
import sys
import struct
import random

from . import world as W
from . import printer as P
from . import rig
from . import logworld as L

FAKE_DIR = os.path.join(os.path.dirname(os.path.abspath(__file__)), 'fakegdb')


def enable_fake_gdb():
    if FAKE_DIR not in sys.path:
        sys.path.insert(0, FAKE_DIR)
    rig.setup_repo_path()
    if sys.path[0] != FAKE_DIR:
        sys.path.remove(FAKE_DIR)
        sys.path.insert(0, FAKE_DIR)
    import gdb
    assert getattr(gdb, 'HEAP_BASE', None), 'a real gdb module is shadowing the fake'
    return gdb


def snapshot_message(msg):
    """the Message as extract.py returned it (before the connection resolves it)"""
    t = rig.tool()
    Arg = t['wl'].Arg
    args = []
    for a in msg.args:
        if isinstance(a, Arg.Object):
            args.append(('Object', a.obj.id, a.obj.type, bool(a.is_new)))
        elif isinstance(a, Arg.Null):
            args.append(('Null', a.type))
        elif isinstance(a, Arg.Array):
            args.append(('Array', None if a.values is None else [getattr(v, 'value', None) for v in a.values]))
        elif isinstance(a, Arg.Unknown):
            args.append(('Unknown', a.string))
        else:
            args.append((type(a).__name__, a.value))
    return {'name': msg.name, 'sent': msg.sent, 'obj_id': msg.obj.id, 'obj_type': msg.obj.type, 'args': args,
            'timestamp': msg.timestamp}


class SimClock:
    def __init__(self):
        self.now_us = 0

    def perf_counter(self):
        return self.now_us / 1e6

    def __getattr__(self, n):
        import time
        return getattr(time, n)


class Slot:
    """a place where the program keeps a Wayland connection; holds the current ConnState or None"""

    def __init__(self, index, side):
        self.index = index
        self.side = side
        self.conn = None          # current ConnState
        self.addr = None          # address of the current wl_connection
        self.last_addr = None     # address of the previously destroyed one
        self.thread = 1
        self.display_addr = None
        self.client_addr = None
        self.generation = 0


class GdbSim:
    """owns memory, the world, the tool instance and the event loop"""

    def __init__(self, sc):
        self.gdb = enable_fake_gdb()
        self.sc = sc
        cfg = sc['config']
        self.cfg = cfg
        self.state = self.gdb.SimState()
        self.gdb._attach(self.state)
        self.mem = self.state.mem
        self.rec = rig.Recorder()
        self.clock = SimClock()
        self.world = W.World(sc['seed'], 0, ['client'], rig.REPO, epoch_us=0, use_synth=cfg.get('synth', True))
        self.slots = [Slot(i, cfg['sides'][i % len(cfg['sides'])]) for i in range(cfg['nslots'])]
        self.iface_addr = {}
        self.msg_addr = {}
        self.obj_addr = {}           # incarnation key -> address of its wl_proxy / wl_resource
        self.str_cache = {}
        self.halted = False
        self.exited = False
        self.quit = False
        self.pos = 0
        self.intents = sc['intents']
        self.depth = 0
        self.hits = []               # per breakpoint hit: dict(kind, closure, conn, stop, exception, out_seq...)
        self.cmd_log = []            # per user command: dict(text, executed=[...], exception)
        self.exec_log = []
        self.state.on_execute = self._on_execute
        self.state.on_write = self._on_write
        self.state.on_selected_thread = self._on_selected_thread
        self.state.on_read = self._on_read
        self.in_stop = False
        self.reads_in_hit = 0
        self.message_hits = 0
        self.thread_calls = 0
        self.current_cmd = None
        self.order = []              # ConnState indexes in order of first message (expected naming order)
        self.notes = []              # ground-truth connection events: ('open', conn idx) / ('close', conn idx) / ('silent-destroy', ...)
        self.conn_events = []

    # ------------------------------------------------------------------ gdb callbacks
    def _on_write(self, text, stream):
        f = self.cfg.get('ctrl_c_in_closed_notice')
        if f is not None and 'Closed ' in text and 'connection' in text:
            self.closed_writes = getattr(self, 'closed_writes', 0) + 1
            if self.closed_writes - 1 == f:
                # the user's Ctrl-C lands while gdb.write prints the notice: gdb raises KeyboardInterrupt in Python
                self.rec.add('fault-write', text)
                self.fault_fired = True
                self.counters['fault_ctrl_c_in_closed_notice'] = self.counters.get('fault_ctrl_c_in_closed_notice', 0) + 1
                raise KeyboardInterrupt()
        ml = self.cfg.get('ctrl_c_in_message_line')
        cl_ = getattr(self, 'cur_cl', None)
        if (ml is not None and self.in_stop and cl_ is not None and not getattr(self, 'message_line_fault_done', False)
                and cl_.name not in ('set_app_id', 'set_title', 'get_layer_surface') and L.MSG_RE.match(text)):
            self.message_line_writes = getattr(self, 'message_line_writes', 0) + 1
            if self.message_line_writes - 1 == ml:
                # the user's Ctrl-C lands while the live view prints a message line: gdb raises KeyboardInterrupt inside
                # gdb.write, stop() raises, gdb halts the program, the user continues.  That one line is lost on the screen;
                # the message is recorded and everything afterwards goes on as before
                self.message_line_fault_done = True
                self.fault_fired = True
                self.rec.add('fault-write', text)
                self.counters['fault_ctrl_c_in_message_line'] = self.counters.get('fault_ctrl_c_in_message_line', 0) + 1
                raise KeyboardInterrupt()
        g = self.cfg.get('ctrl_c_in_command_output')
        cur = self.current_cmd
        if g is not None and cur is not None and (cur.get('meta') or {}).get('t') in ('list', 'other', 'help') and not cur.get('injected_fault'):
            self.command_writes = getattr(self, 'command_writes', 0) + 1
            if self.command_writes - 1 == g:
                # the user's Ctrl-C lands while a command that changes nothing (a listing, help) prints: gdb raises
                # KeyboardInterrupt inside gdb.write, the command is abandoned, the program must stay halted
                cur['injected_fault'] = True
                self.rec.add('fault-write', text)
                self.counters['fault_ctrl_c_in_command_output'] = self.counters.get('fault_ctrl_c_in_command_output', 0) + 1
                raise KeyboardInterrupt()
        for line in text.split('\n')[:-1] if text.endswith('\n') else text.split('\n'):
            self.rec.add('out', line)

    def _on_read(self):
        f = self.cfg.get('ctrl_c_in_memory_read')
        if f is None or not self.in_stop:
            return
        self.reads_in_hit += 1
        if self.message_hits - 1 == f[0] and self.reads_in_hit - 1 == f[1]:
            # the user's Ctrl-C lands while the plugin reads the inferior's memory: gdb raises KeyboardInterrupt in Python,
            # the message of this hit is lost
            self.fault_fired = True
            self.rec.add('fault-api', 'memory-read')
            self.counters['fault_ctrl_c_in_memory_read'] = self.counters.get('fault_ctrl_c_in_memory_read', 0) + 1
            raise KeyboardInterrupt()

    def _on_selected_thread(self):
        f = self.cfg.get('fault_in_selected_thread')
        self.thread_calls += 1
        if f is not None and self.thread_calls - 1 == f[0]:
            # input-side fault: the user's Ctrl-C (or a thread that has just exited) makes this gdb call raise
            self.fault_fired = True
            self.rec.add('fault-api', 'selected_thread:' + f[1])
            k = 'fault_selected_thread_raised_' + f[1]
            self.counters[k] = self.counters.get(k, 0) + 1
            if f[1] == 'KeyboardInterrupt':
                raise KeyboardInterrupt()
            raise self.gdb.error('Selected thread is running.')

    def _on_execute(self, command):
        self.rec.add('execute', command)
        self.exec_log.append(command)
        if self.current_cmd is not None:
            self.current_cmd['executed'].append(command)
        c = command.strip()
        if c in ('continue', 'c'):
            if self.depth > 40:
                raise rig.HarnessError('continue nested too deep')
            self.halted = False
            self.depth += 1
            try:
                self.run_until_stop()
            finally:
                self.depth -= 1
        elif c in ('quit', 'q'):
            self.quit = True
        return None

    # ------------------------------------------------------------------ memory image
    def cstr(self, s):
        if s is None:
            return 0
        b = s.encode('utf-8', 'surrogateescape') if isinstance(s, str) else s
        if b in self.str_cache:
            return self.str_cache[b]
        a = self.mem.alloc(len(b) + 1)
        self.mem.write(a, b + b'\0')
        self.str_cache[b] = a
        return a

    def interface(self, name):
        """address of a struct wl_interface for `name` (with message tables when the model knows them)"""
        if name in self.iface_addr:
            return self.iface_addr[name]
        a = self.mem.alloc(40)
        self.iface_addr[name] = a        # before recursion (interfaces refer to each other)
        model = self.world.proto.get(name)
        reqs = model.requests if model else []
        evs = model.events if model else []
        if name == 'wl_registry' and model:
            pass
        tables = []
        for lst in (reqs, evs):
            if not lst:
                tables.append(0)
                continue
            base = self.mem.alloc(24 * len(lst))
            for k, m in enumerate(lst):
                sig = m.signature()
                if name == 'wl_registry' and m.name == 'bind':
                    sig = 'usun'
                    types = [0, 0, 0, 0]
                else:
                    types = []
                    for arg in m.args:
                        if arg.kind in 'on' and arg.interface:
                            types.append(self.interface(arg.interface))
                        else:
                            types.append(0)
                taddr = self.mem.alloc(8 * max(1, len(types)))
                self.mem.write(taddr, b''.join(struct.pack('<Q', t) for t in types) or b'\0' * 8)
                self.mem.write(base + 24 * k, struct.pack('<QQQ', self.cstr(m.name), self.cstr(sig), taddr))
                self.msg_addr[(name, m.is_event, m.opcode)] = base + 24 * k
            tables.append(base)
        self.mem.write(a, struct.pack('<QiiQiI', self.cstr(name), model.version if model else 1, len(reqs), tables[0],
                                      len(evs), 0) + struct.pack('<Q', tables[1]))
        return a

    def object_addr(self, slot, inc):
        """wl_proxy (client side) or wl_resource (server side) of an incarnation"""
        k = inc.key()
        if k in self.obj_addr:
            return self.obj_addr[k]
        if slot.side == 'client':
            a = self.mem.alloc(self.gdb.lookup_type('wl_proxy').sizeof)
            self.mem.write(a, struct.pack('<QQI', self.interface(inc.iface), 0x1111, inc.id))
            self.mem.write(a + 24, struct.pack('<Q', slot.display_addr or 0))
        else:
            t = self.gdb.lookup_type('wl_resource')
            a = self.mem.alloc(t.sizeof)
            self.mem.write(a, struct.pack('<QQI', self.interface(inc.iface), 0x2222, inc.id))
            self.mem.write(a + t.field('client').bitpos // 8, struct.pack('<Q', slot.client_addr))
        self.obj_addr[k] = a
        return a

    def open_slot(self, slot):
        c = W.ConnState(len(self.world.conns), slot.side, self.world)
        self.world.conns.append(c)
        slot.conn = c
        slot.generation += 1
        slot.addr = self.mem.alloc(64, reuse=(slot.generation + slot.index) % 3 != 0)
        c.address = slot.addr
        if slot.last_addr is not None and slot.addr == slot.last_addr:
            self.bump('probe_address_reused')
        if slot.side == 'client':
            t = self.gdb.lookup_type('wl_display')
            # wl_display structs are freed on disconnect too: a later display often sits at the old address while its
            # wl_connection (a separate allocation) may or may not get its old address back
            slot.display_addr = self.mem.alloc(t.sizeof, reuse=True)
            self.mem.write(slot.display_addr, struct.pack('<QQI', self.interface('wl_display'), 0, 1))
            self.mem.write(slot.display_addr + t.field('connection').bitpos // 8, struct.pack('<Q', slot.addr))
            self.obj_addr[c.display.key()] = slot.display_addr
        else:
            slot.client_addr = self.mem.alloc(self.gdb.lookup_type('wl_client').sizeof)
            self.mem.write(slot.client_addr, struct.pack('<Q', slot.addr))
        return c

    def build_closure(self, slot, cl, received):
        """write struct wl_closure for ground-truth closure cl; returns its address"""
        g = self.gdb
        t = g.lookup_type('wl_closure')
        a = self.mem.alloc(t.sizeof)
        key = (cl.target.iface, cl.is_event, cl.opcode)
        self.interface(cl.target.iface)
        maddr = self.msg_addr.get(key)
        if maddr is None:
            raise rig.HarnessError('no wl_message for %r' % (key,))
        self.mem.write(a, struct.pack('<i', len(cl.args)))
        self.mem.write(a + 8, struct.pack('<QII', maddr, cl.opcode, cl.target.id))
        off = t.field('args').bitpos // 8
        for i, ga in enumerate(cl.args):
            slotaddr = a + off + 8 * i
            k = ga.kind
            if k in 'ih':
                self.mem.write(slotaddr, struct.pack('<i', ga.value) + b'\xaa\xaa\xaa\xaa')
            elif k == 'u':
                self.mem.write(slotaddr, struct.pack('<I', ga.value) + b'\xaa\xaa\xaa\xaa')
            elif k == 'f':
                self.mem.write(slotaddr, struct.pack('<i', ga.value) + b'\xaa\xaa\xaa\xaa')
            elif k == 's':
                self.mem.write(slotaddr, struct.pack('<Q', self.cstr(ga.value) if ga.value is not None else 0))
            elif k == 'o':
                self.mem.write(slotaddr, struct.pack('<Q', self.object_addr(slot, ga.value) if ga.value is not None else 0))
            elif k == 'n':
                if received and slot.side == 'client':
                    # dispatch_event has already created the proxy: the slot holds a pointer
                    self.mem.write(slotaddr, struct.pack('<Q', self.object_addr(slot, ga.value)))
                else:
                    self.mem.write(slotaddr, struct.pack('<I', ga.value.id) + b'\xaa\xaa\xaa\xaa')
            elif k == 'a':
                data = ga.value if ga.value is not None else b''
                d = self.mem.alloc(max(16, len(data)))
                self.mem.write(d, data)
                arr = self.mem.alloc(24)
                self.mem.write(arr, struct.pack('<QQQ', len(data), max(16, len(data)), d))
                self.mem.write(slotaddr, struct.pack('<Q', arr))
        # closure->proxy: null when sending; on the client receive path it is the target proxy
        self.mem.write(a + t.field('proxy').bitpos // 8, struct.pack('<Q', 0))
        return a

    # ------------------------------------------------------------------ counters
    def bump(self, k, n=1):
        self.counters[k] = self.counters.get(k, 0) + n

    # ------------------------------------------------------------------ start the tool
    def start(self):
        g = self.gdb
        t = rig.tool()
        rig.reset_globals()
        rig.install_logging(self.rec)
        self.counters = {}
        t['util'].time = self.clock
        from backends.gdb_plugin import extract
        # the offset cache is process-global: always start cold so that a run is a function of its scenario only;
        # within a run the scheduler mixes sides, so extractions happen cold, warm and warmed by the other side
        extract.gdb_fast_access_map.clear()
        extract.wl_resource_ptr_type = None
        self.extract = extract
        self.extracted = []
        real_recv, real_sent = extract.received_message, extract.sent_message
        self._real_extractors = (real_recv, real_sent)
        sim = self

        def snap(result):
            conn_id, msg = result
            sim.extracted.append((conn_id, snapshot_message(msg)))
            return result
        extract.received_message = lambda: snap(real_recv())
        extract.sent_message = lambda: snap(real_sent())
        from backends import gdb_plugin
        self.plugin_mod = gdb_plugin.plugin
        argv = ['main.py', '--color' if self.cfg.get('color') else '-C']
        if self.cfg.get('suppress'):
            argv.append('--supress')
        if self.cfg.get('filter') is not None:
            argv += ['-f', self.cfg['filter']]
        if self.cfg.get('break') is not None:
            argv += ['-b', self.cfg['break']]
        self.start_exception = None
        real_controller = t['Controller']
        m = t['main']
        holder = {}
        from . import track
        self.tracker = track.Tracker(self.rec)

        def capturing_controller(*a, **kw):
            c = real_controller(*a, **kw)
            holder['controller'] = c
            holder['cm'] = a[1]
            a[1].add_connection_list_listener(self.tracker.make(), True)
            return c
        real_plugin = self.plugin_mod.Plugin

        def capturing_plugin(*a, **kw):
            p = real_plugin(*a, **kw)
            holder['plugin'] = p
            return p
        m.Controller = capturing_controller
        self.plugin_mod.Plugin = capturing_plugin
        try:
            args = t['parse_args'](argv)
            t['util'].set_color_output(args.show_color)
            out_stream, err_stream = self.plugin_mod.output_streams()
            output = t['Output'](args.show_verbose, args.show_unprocessed_output, out_stream, err_stream)
            m.main(args, output, lambda prompt: (_ for _ in ()).throw(rig.HarnessError('input() called in gdb mode')))
        except (rig.HarnessError, rig.RunTimeout):
            raise
        except BaseException as e:  # noqa
            import traceback
            self.start_exception = traceback.format_exc()
        finally:
            m.Controller = real_controller
            self.plugin_mod.Plugin = real_plugin
        self.controller = holder.get('controller')
        self.cm = holder.get('cm')
        self.plugin = holder.get('plugin')
        self.mode = args.mode if self.start_exception is None else None
        self.bps = {}
        for b in self.state.breakpoints:
            self.bps.setdefault(b.location, b)

    def finish(self):
        t = rig.tool()
        if getattr(self, '_real_extractors', None):
            self.extract.received_message, self.extract.sent_message = self._real_extractors
        import time
        t['util'].time = time
        t['util'].set_color_output(False)

    # ------------------------------------------------------------------ breakpoint hits
    def hit(self, spec, frame, thread, info):
        g = self.gdb
        self.state.frame = frame
        self.state.thread = thread
        bp = self.bps.get(spec)
        info['spec'] = spec
        info['thread'] = thread
        info['seq_before'] = self.rec.seq
        info['n_extracted_before'] = len(self.extracted)
        info['stop'] = None
        info['exception'] = None
        info['injected_fault'] = False
        self.fault_fired = False
        self.rec.add('hit', (spec, thread))
        if bp is None:
            info['exception'] = 'no breakpoint registered on ' + spec
            self.hits.append(info)
            return False
        self.reads_in_hit = 0
        if info.get('kind') == 'message':
            self.message_hits += 1
        self.in_stop = True
        try:
            r = bp.stop()
            info['stop'] = bool(r)
        except (rig.HarnessError, rig.RunTimeout):
            raise
        except BaseException as e:  # noqa  (real gdb prints the error and stops the inferior)
            import traceback
            if (isinstance(e, KeyboardInterrupt) or type(e).__name__ == 'error') and getattr(self, 'fault_fired', False):
                info['injected_fault'] = True      # our own fault coming back out of stop(): expected, gdb halts the program
                info['stop'] = True
            else:
                info['exception'] = traceback.format_exc()
                info['stop'] = True
            self.rec.add('stop-exception', type(e).__name__)
        self.in_stop = False
        info['seq_after'] = self.rec.seq
        info['extracted'] = self.extracted[-1] if len(self.extracted) > info.get('n_extracted_before', 0) else None
        self.hits.append(info)
        self.state.frame = None
        return info['stop']

    def message_hit(self, slot, cl):
        g = self.gdb
        self.rec.add('line', (cl.conn, cl.idx, cl.name))
        self.cur_cl = cl
        sent = P.is_sent(cl, slot.side)
        ca = self.build_closure(slot, cl, received=not sent)
        closure_v = g.Value(g.lookup_type('wl_closure').pointer(), raw=ca)
        conn_v = g.Value(g.lookup_type('wl_connection').pointer(), raw=slot.addr)
        thread = cl.thread
        info = {'kind': 'message', 'closure': cl, 'slot': slot.index, 'sent': sent, 'addr': slot.addr}
        if sent:
            parent = g.Frame(self.rng_choice(['wl_closure_send', 'wl_closure_queue'], cl), {'closure': closure_v, 'connection': conn_v})
            frame = g.Frame('serialize_closure', {'closure': closure_v}, parent)
            return self.hit('serialize_closure', frame, thread, info)
        target_v = g.Value(g.lookup_type('wl_object').pointer(), raw=self.object_addr(slot, cl.target))
        # a nested compositor is client and server in one process: a closure may be dispatched re-entrantly from inside a handler
        # of the other side (its event loop run from a host event callback, or the reverse), so the other side's dispatcher can
        # be further up the same stack.  The side is the one of the *immediate* caller.
        outer = None
        others = [s_ for s_ in self.slots if s_.side != slot.side and getattr(s_, 'addr', None)]
        if others and (cl.conn * 13 + cl.idx * 5 + cl.opcode) % 7 == 0:
            o_ = others[(cl.idx + cl.opcode) % len(others)]
            if o_.side == 'client' and getattr(o_, 'display_addr', None):
                outer = g.Frame('dispatch_event', {'display': g.Value(g.lookup_type('wl_display').pointer(), raw=o_.display_addr)},
                                g.Frame('wl_display_dispatch_queue_pending', {}, g.Frame('main', {})))
            elif o_.side == 'server' and getattr(o_, 'client_addr', None):
                outer = g.Frame('wl_client_connection_data', {'client': g.Value(g.lookup_type('wl_client').pointer(), raw=o_.client_addr)},
                                g.Frame('wl_event_loop_dispatch', {}, g.Frame('main', {})))
            if outer is not None:
                outer = g.Frame('wl_event_loop_dispatch' if slot.side == 'server' else 'wl_display_dispatch_queue_pending', {},
                                g.Frame('nested_handler', {}, g.Frame('ffi_call', {}, outer)))
                self.bump('probe_other_sides_dispatcher_further_up_the_stack')
        if slot.side == 'client':
            parent = g.Frame('dispatch_event', {'display': g.Value(g.lookup_type('wl_display').pointer(), raw=slot.display_addr),
                                                'closure': closure_v}, outer)
        else:
            parent = g.Frame('wl_client_connection_data', {'client': g.Value(g.lookup_type('wl_client').pointer(), raw=slot.client_addr),
                                                           'closure': closure_v}, outer)
        spec = self.rng_choice(['wl_closure_invoke', 'wl_closure_dispatch'], cl)
        frame = g.Frame(spec, {'closure': closure_v, 'target': target_v, 'opcode': g.Value(g.lookup_type('uint32_t'), raw=cl.opcode)}, parent)
        return self.hit(spec, frame, thread, info)

    def rng_choice(self, options, cl):
        return options[(cl.conn * 31 + cl.idx * 7 + cl.opcode) % len(options)]

    def destroy_hit(self, addr, thread, info):
        g = self.gdb
        frame = g.Frame('wl_connection_destroy', {'connection': g.Value(g.lookup_type('wl_connection').pointer(), raw=addr)},
                        g.Frame('wl_display_disconnect', {}))
        info['kind'] = 'destroy'
        info['addr'] = addr
        self.rec.add('close', info.get('what'))
        return self.hit('wl_connection_destroy', frame, thread, info)

    # ------------------------------------------------------------------ the inferior
    def run_until_stop(self):
        """run the program until it halts (our stop(), a user interrupt = next intent is a command) or exits"""
        while self.pos < len(self.intents) and not self.quit:
            it = self.intents[self.pos]
            k = it[0]
            if k == 'cmd':
                # the user interrupts the running program to type something (a stop that is not ours)
                self.halted = True
                self.bump('foreign_stops')
                self.rec.add('foreign-stop')
                return 'stopped'
            self.pos += 1
            if k == 'tick':
                self.clock.now_us += it[1]
                self.world.now = self.clock.now_us
            elif k == 'thread_exit':
                # a (non-main) thread of the inferior exits: gdb.InferiorThread objects taken from it go invalid, the next
                # thread in that role gets a fresh global number
                if it[1] >= 2:
                    self.state.thread_gen[it[1]] = self.state.thread_gen.get(it[1], 0) + 1
                    self.rec.add('thread-exit', it[1])
                    self.bump('fault_thread_exited')
            elif k == 'act':
                slot = self.slots[it[1] % len(self.slots)]
                if slot.conn is None:
                    self.open_slot(slot)
                self.world.now = self.clock.now_us
                c = slot.conn
                cl = self.world.act(c.index, it[2], it[3], it[4], it[5])
                if cl is None:
                    continue
                cl.thread = it[6] if len(it) > 6 and it[6] else slot.thread
                if c.index not in self.order:
                    self.order.append(c.index)
                    self.conn_events.append(('open', c.index, self.rec.seq))
                    slot.thread = cl.thread
                stop = self.message_hit(slot, cl)
                self.clock.now_us += 1
                if stop:
                    self.halted = True
                    return 'stopped'
            elif k == 'destroy':
                slot = self.slots[it[1] % len(self.slots)]
                variant = it[2] if len(it) > 2 else 0
                info = {}
                if slot.conn is not None:
                    c = slot.conn
                    seen = c.index in self.order
                    info['what'] = 'open' if seen else 'never-seen'
                    info['conn'] = c.index
                    if seen:
                        self.conn_events.append(('close', c.index, self.rec.seq))
                    addr = slot.addr
                    self.mem.release(slot.addr, 64)
                    if slot.display_addr is not None:
                        self.mem.release(slot.display_addr, self.gdb.lookup_type('wl_display').sizeof)
                        self.obj_addr.pop(c.display.key(), None)
                        slot.display_addr = None
                    slot.last_addr = slot.addr
                    slot.conn = None
                    slot.addr = None
                    self.bump('destroy_' + info['what'].replace('-', '_'))
                    stop = self.destroy_hit(addr, slot.thread, info)
                elif (slot.last_addr is not None and variant % 2 == 0 and
                      slot.last_addr not in [x.addr for x in self.slots] and
                      slot.last_addr not in [a for lst in self.mem.free.values() for a in lst][:-1] + [None]):
                    info['what'] = 'already-closed'
                    self.bump('destroy_already_closed')
                    stop = self.destroy_hit(slot.last_addr, slot.thread, info)
                else:
                    info['what'] = 'never-seen'
                    self.bump('destroy_never_seen')
                    addr = self.mem.alloc(64)
                    stop = self.destroy_hit(addr, slot.thread, info)
                if stop:
                    self.halted = True
                    return 'stopped'
        self.exited = True
        return 'exited'

    def user_command(self, text, meta):
        """the user types a gdb command line while the program is halted"""
        parts = text.split(None, 1)
        word = parts[0] if parts else ''
        arg = parts[1] if len(parts) > 1 else ''
        entry = {'text': text, 'meta': meta, 'executed': [], 'exception': None, 'seq': self.rec.add('cmd', text),
                 'halted_before': self.halted}
        self.cmd_log.append(entry)
        if word in ('continue', 'c') and not arg:
            # plain gdb continue, bypassing the plugin
            entry['plain'] = True
            self.halted = False
            self.run_until_stop()
            return entry
        cmd = self.state.commands.get(word)
        if cmd is None:
            entry['unknown'] = True
            self.rec.add('out', 'Undefined command: "%s".  Try "help".' % word)
            return entry
        self.current_cmd = entry
        try:
            cmd.invoke(arg, True)
        except (rig.HarnessError, rig.RunTimeout):
            raise
        except BaseException as e:  # noqa
            import traceback
            entry['exception'] = traceback.format_exc()
            self.rec.add('cmd-exception', type(e).__name__)
        finally:
            self.current_cmd = None
        return entry

    def run(self):
        self.start()
        try:
            if self.start_exception is not None:
                return
            self.run_until_stop()
            while not self.quit and self.pos < len(self.intents):
                it = self.intents[self.pos]
                if it[0] == 'cmd':
                    self.pos += 1
                    self.user_command(it[1], it[2] if len(it) > 2 else {})
                elif self.halted:
                    # the user resumes the program with plain gdb `continue`
                    self.bump('plain_continue_by_user')
                    self.rec.add('auto-continue', 'continue')
                    self.halted = False
                    self.run_until_stop()
                else:
                    self.run_until_stop()
        finally:
            self.finish()
