"""Scenario -> world -> byte stream; parsing of the tool's output lines (observation side).

A scenario is a JSON-able dict: {'config': {...}, 'intents': [...], 'faults': [...]}.
"""
import re
import random

from . import world as W
from . import printer as P

# ----------------------------------------------------------------------------- generation

KIND_PROFILES = {
    'mixed': [('request', 14), ('event', 14), ('request_new', 10), ('event_new', 10), ('mention', 10),
              ('destroy', 9), ('delete_id', 9), ('churn', 8), ('global', 5), ('bind', 6), ('sync', 2),
              ('done', 2), ('bind_synth', 6), ('destroy_server', 5), ('app_id', 4)],
    'churn': [('churn', 50), ('destroy', 10), ('delete_id', 10), ('request_new', 10), ('event_new', 8),
              ('bind', 5), ('global', 3), ('mention', 4)],
    'objects': [('request_new', 14), ('event_new', 22), ('destroy', 12), ('delete_id', 12), ('mention', 12),
                ('bind', 5), ('global', 3), ('churn', 5), ('bind_synth', 10), ('destroy_server', 14)],
    'synth': [('bind_synth', 22), ('request', 24), ('event', 24), ('request_new', 8), ('event_new', 8), ('mention', 8),
              ('destroy', 3), ('delete_id', 3)],
    'longchurn': [('churn', 90), ('delete_id', 5), ('destroy', 3), ('request_new', 2)],
}


def weighted(rng, table):
    total = sum(w for _, w in table)
    x = rng.randrange(total)
    for k, w in table:
        if x < w:
            return k
        x -= w
    raise AssertionError


def gen_tick(rng):
    r = rng.random()
    if r < 0.08:
        return 0
    if r < 0.70:
        return rng.randint(1, 900)
    if r < 0.80:
        return rng.randint(900, 200000)
    if r < 0.90:
        return rng.choice([999998, 999999, 1000000, 1000001, 1000002, 999500, 1000500, 1000049, 1000050, 1000051])
    if r < 0.97:
        return rng.randint(1000003, 3000000)
    return rng.randint(60 * 10**6, 600 * 10**6)


def gen_conn_intents(seed, c, n, profile, registry_first=None):
    """intent list of connection c: a function of (seed, c) only, so that the content of a connection
    does not depend on its neighbours or on the interleaving (C04's relational oracle rests on this)."""
    rng = random.Random('%d/conn/%d' % (seed, c))
    prof = KIND_PROFILES[profile]
    out = []
    if registry_first is None:
        registry_first = rng.random() < 0.7
    if registry_first:
        out.append(['act', c, 'get_registry', 0, 0, rng.randrange(1 << 30)])
        for _ in range(rng.randint(0, 3)):
            out.append(['act', c, 'global', rng.randrange(1 << 30), rng.randrange(1 << 30), rng.randrange(1 << 30)])
    while len(out) < n:
        out.append(['act', c, weighted(rng, prof), rng.randrange(1 << 30), rng.randrange(1 << 30),
                    rng.randrange(1 << 30)])
    return out[:n]


def gen_deep_intents(seed, c):
    """> 702 complete sync / done / delete_id cycles, so that one client id is recycled past `zz` into three-letter labels;
    nothing else allocates ids on this connection, so the cycle keeps hitting the same slot"""
    rng = random.Random('%d/deep/%d' % (seed, c))
    out = [['act', c, 'get_registry', 0, 0, rng.randrange(1 << 30)]]
    for _ in range(3 * rng.randint(704, 740)):
        out.append(['act', c, 'churn', rng.randrange(1 << 30), rng.randrange(1 << 30), rng.randrange(1 << 30)])
    return out


def interleave(rng, per_conn, chatter_rate=0.0, tick=True, late_start=True):
    """order-preserving merge chosen by the scheduler; ticks and chatter inserted"""
    pos = [0] * len(per_conn)
    out = []
    active = list(range(len(per_conn)))
    # some connections start late / run in bursts
    weights = [rng.choice([1, 1, 2, 5]) for _ in per_conn]
    started = [not late_start or rng.random() < 0.6 for _ in per_conn]
    if not any(started):
        started[0] = True
    while active:
        if late_start and rng.random() < 0.05:
            for i in range(len(started)):
                if not started[i] and rng.random() < 0.5:
                    started[i] = True
        cands = [i for i in active if started[i]]
        if not cands:
            started[active[0]] = True
            cands = [active[0]]
        tot = sum(weights[i] for i in cands)
        x = rng.randrange(tot)
        for i in cands:
            if x < weights[i]:
                break
            x -= weights[i]
        burst = rng.choice([1, 1, 1, 2, 4])
        for _ in range(burst):
            if pos[i] >= len(per_conn[i]):
                break
            if tick:
                out.append(['tick', gen_tick(rng)])
            out.append(per_conn[i][pos[i]])
            pos[i] += 1
            if chatter_rate and rng.random() < chatter_rate:
                out.append(['chatter', rng.randrange(1000), rng.randrange(1000)])
        if pos[i] >= len(per_conn[i]):
            active.remove(i)
    return out


def pick_dialect(rng, nconn):
    names = [n for n in P.PRESET_NAMES if (nconn == 1 or P.PRESETS[n]['conn'])]
    if nconn == 1 and rng.random() < 0.5:
        names = [n for n in names if not P.PRESETS[n]['conn']]
    return rng.choice(names)


def gen_chunks(rng):
    r = rng.random()
    if r < 0.15:
        return [1]
    if r < 0.3:
        return [1 << 20]
    if r < 0.5:
        return [rng.randint(1, 40)]
    return [rng.choice([1, 2, 3, 5, 7, 16, 64, 100, 1000, 8192, 10000]) for _ in range(rng.randint(2, 8))]


# ----------------------------------------------------------------------------- stream building

class Stream:
    """the rendered log: lines (text, item) in order, bytes"""

    def __init__(self):
        self.world = None
        self.lines = []     # list of (text, item) ; item is Closure or Chatter
        self.data = b''
        self.cmds = []      # (position in lines, text) for component rig


def make_world(sc, repo):
    cfg = sc['config']
    return W.World(sc['seed'], cfg['nconn'], cfg['sides'], repo, epoch_us=cfg.get('epoch_us', 0),
                   use_synth=cfg.get('synth', True))


def render_item(w, it, dialect):
    if isinstance(it, W.Closure):
        c = w.conns[it.conn]
        q = None
        if dialect['queue'] and c.side == 'client':
            q = P.QUEUE_NAMES[(it.conn * 7 + it.target.id) % len(P.QUEUE_NAMES)]
        return P.render(it, dialect, c.side, c.conn_tag, q)
    return it.text


def build_stream(sc, repo, only_conn=None):
    cfg = sc['config']
    d = cfg['dialect']
    dialect = dict(P.PRESETS[d]) if isinstance(d, str) else dict(d)
    if cfg.get('mark'):
        dialect['mark'] = cfg['mark']
    if cfg.get('time_spelling'):
        dialect['time_spelling'] = cfg['time_spelling']
    w = make_world(sc, repo)
    st = Stream()
    st.world = w
    st.steps = []   # ('line', text, item) | ('cmd', text) | ('flush',)

    def hook(it, produced):
        if it[0] == 'cmd':
            st.steps.append(('cmd', it[1]))
        elif it[0] == 'close':
            # a backend closes a connection in the middle of the session (what wl_connection_destroy does in GDB mode)
            st.steps.append(('close', w.conns[it[1] % len(w.conns)].conn_tag if dialect['conn'] else 'PARSED'))
        elif it[0] == 'flush':
            st.steps.append(('flush',))
        elif produced is not None:
            if only_conn is not None and isinstance(produced, W.Closure) and produced.conn != only_conn:
                return
            if only_conn is not None and isinstance(produced, W.Chatter):
                return
            text = render_item(w, produced, dialect)
            st.lines.append((text, produced))
            st.steps.append(('line', text, produced))
    W.apply_intents(w, sc['intents'], hook)
    body = '\n'.join(t for t, _ in st.lines)
    if st.lines and (not cfg.get('nonewline', False) or st.lines[-1][0] == ''):
        # (an empty last line without its newline would not exist at all)
        body += '\n'
    st.data = body.encode('utf-8')
    st.dialect = dialect
    return st


# ----------------------------------------------------------------------------- output parsing

NOTICE_RE = re.compile(r'^(New|Closed) (server|client|unknown type) connection ([A-Z]+)$')
SEP_RE = re.compile(r'^    ───┤ (\d+\.\d{4})s ├───$')
PASS_PREFIX = ' ' * 6 + ' |  '
MSG_RE = re.compile(r'^\s*(-?\d+\.\d{4}) ([A-Za-z]*): (→ )?(unresolved )?([^@\s()]+)@(\d+)([a-z]+|\?)\.(\w+)\(')
DESTROYED_RE = re.compile(r' -- (unresolved )?([^@\s()]+)@(\d+)([a-z]+|\?)\.destroyed(?: after (-?\d+\.\d{4})s)?( ↲)?$')
STOPPED_PREFIX = '    Stopped at '
OBJ_TOKEN_RE = re.compile(r'(new )?(unresolved )?([A-Za-z_][\w\?]*|\?\?\?)@(\d+)([a-z]+|\?)')


class OutItem:
    __slots__ = ('kind', 'text', 'seq', 'time', 'conn', 'sent', 'unresolved', 'iface', 'id', 'gen', 'name',
                 'destroyed', 'notice')

    def __repr__(self):
        return 'OutItem(%s %r)' % (self.kind, self.text)


def classify(seq, text):
    o = OutItem()
    o.seq = seq
    o.text = text
    o.destroyed = None
    m = NOTICE_RE.match(text)
    if m:
        o.kind = 'notice'
        o.notice = (m.group(1), m.group(2), m.group(3))
        return o
    if SEP_RE.match(text):
        o.kind = 'sep'
        o.time = float(SEP_RE.match(text).group(1))
        return o
    if text.startswith(PASS_PREFIX):
        o.kind = 'pass'
        return o
    m = MSG_RE.match(text)
    if m:
        o.kind = 'msg'
        o.time = float(m.group(1))
        o.conn = m.group(2)
        o.sent = m.group(3) is not None
        o.unresolved = m.group(4) is not None
        o.iface = m.group(5)
        o.id = int(m.group(6))
        o.gen = m.group(7)
        o.name = m.group(8)
        dm = DESTROYED_RE.search(text)
        if dm:
            o.destroyed = (dm.group(2), int(dm.group(3)), dm.group(4),
                           None if dm.group(5) is None else float(dm.group(5)))
        return o
    o.kind = 'other'
    return o


def out_items(rec):
    return [classify(seq, payload) for seq, kind, payload in rec.events if kind == 'out']


def strip_string_args(text):
    """remove repr()-quoted string arguments from a shown message line so object tokens can be
    scraped without being fooled by string contents"""
    out = []
    i = 0
    n = len(text)
    while i < n:
        ch = text[i]
        if ch in '\'"' and (i == 0 or text[i - 1] in '=( '):
            # python repr string: find the matching quote honouring backslashes
            q = ch
            j = i + 1
            while j < n and text[j] != q:
                if text[j] == '\\':
                    j += 1
                j += 1
            out.append('S')
            i = j + 1
            continue
        out.append(ch)
        i += 1
    return ''.join(out)
