"""Oracles shared by several properties: attribution (C02), lifetimes (C03), connection bookkeeping (C04).
Expectations come from the world's ground truth only."""
from . import world as W
from . import logworld as L

TOL4 = 0.5e-4 + 1e-9


def conn_names(st):
    """world connection index -> expected tool name, in order of first appearance"""
    names = {}
    for _, it in st.lines:
        if isinstance(it, W.Closure) and it.conn not in names:
            names[it.conn] = W.letters(len(names), True)
    return names


def shown_pairs(items, st, only=None):
    """pair shown message lines with ground-truth closures in stream order (valid when nothing is filtered)"""
    outs = [o for o in items if o.kind == 'msg']
    cls = [it for _, it in st.lines if isinstance(it, W.Closure) and (only is None or it.conn == only)]
    return outs, cls


def arg_tokens(text):
    m = L.MSG_RE.match(text)
    if not m:
        return None
    rest = text[m.end():]
    rest = L.strip_string_args(rest)
    dm = L.DESTROYED_RE.search(rest)
    if dm:
        rest = rest[:dm.start()]
    toks = []
    for t in L.OBJ_TOKEN_RE.finditer(rest):
        toks.append((t.group(1) is not None, t.group(2) is not None, t.group(3), int(t.group(4)), t.group(5)))
    return toks


def check_attribution(st, tr, V, names=None, check_tokens_items=None):
    """C02 clauses. Returns pyid -> Incarnation map (used by the lifetime oracle)."""
    names = names or conn_names(st)
    py2inc = {}
    inc2py = {}

    def pair(snap, inc, what, i, cname):
        py2inc.setdefault(snap.pyid, set()).add(inc.key())
        inc2py.setdefault(inc.key(), set()).add(snap.pyid)
        inc_by_key[inc.key()] = inc

    inc_by_key = {}
    for wc, cname in names.items():
        truth = st.world.conns[wc].msgs
        snaps = tr.msgs.get(cname, [])
        if len(snaps) != len(truth):
            V.add('C02/target', 'message-count', 'connection %s: tool recorded/announced %d messages, history has %d'
                  % (cname, len(snaps), len(truth)))
        for i, (s, cl) in enumerate(zip(snaps, truth)):
            want = (cl.target.iface, cl.target.id, cl.target.gen)
            if getattr(cl.target, 'orphan', False):
                # a stray message on an id nothing has created (ill-formed on purpose): no message but one naming a new id
                # brings an object into being, so the target stays unresolved
                V.bump('probe_stray_message_on_a_never_created_id')
                if s.target.resolved:
                    V.add('C02/created-type', 'stray-message', '%s msg %d %s on never-created id %d: the tool now has an object %r for it'
                          % (cname, i, cl.name, cl.target.id, s.target.tup()))
            elif not s.target.resolved or s.target.tup() != want:
                V.add('C02/target', 'target', '%s msg %d %s: target attributed to %r (resolved=%s), ground truth %r'
                      % (cname, i, cl.name, s.target.tup(), s.target.resolved, want))
            else:
                pair(s.target, cl.target, 'target', i, cname)
            if len(s.args) != len(cl.args):
                V.bump('arg_count_mismatch_not_judged')
            else:
                for j, a in enumerate(cl.args):
                    if a.kind not in 'on' or a.value is None:
                        continue
                    kind, snap, is_new = s.args[j]
                    want = (a.value.iface, a.value.id, a.value.gen)
                    if kind != 'obj':
                        V.bump('arg_kind_mismatch_not_judged')
                        continue
                    if not snap.resolved or (snap.id, snap.gen) != want[1:]:
                        V.add('C02/arg', a.kind, '%s msg %d %s arg %d: attributed to %r (resolved=%s), ground truth %r'
                              % (cname, i, cl.name, j, snap.tup(), snap.resolved, want))
                    elif snap.type != want[0]:
                        V.add('C02/created-type', a.kind, '%s msg %d %s arg %d: object typed %r, ground truth %r'
                              % (cname, i, cl.name, j, snap.type, want[0]))
                    elif is_new != (a.kind == 'n'):
                        V.add('C02/arg', 'is-new', '%s msg %d %s arg %d: is_new=%s for kind %s' % (cname, i, cl.name, j, is_new, a.kind))
                    else:
                        pair(snap, a.value, 'arg', i, cname)
            if cl.destroys is not None:
                want = (cl.destroys.iface, cl.destroys.id, cl.destroys.gen)
                if s.destroyed is None or s.destroyed.tup() != want:
                    V.add('C02/destroyed-subject', 'delete_id', '%s msg %d delete_id(%d): destroyed %r, ground truth %r'
                          % (cname, i, cl.destroys.id, None if s.destroyed is None else s.destroyed.tup(), want))
                else:
                    pair(s.destroyed, cl.destroys, 'destroyed', i, cname)
            elif s.destroyed is not None:
                V.add('C02/destroyed-subject', 'spurious', '%s msg %d %s: destroyed_obj %r on a message that destroys nothing'
                      % (cname, i, cl.name, s.destroyed.tup()))
    for pyid, keys in py2inc.items():
        if len(keys) > 1:
            V.add('C02/bijection', 'shared-object', 'one tool object stands for incarnations %r' % sorted(keys))
    for key, pys in inc2py.items():
        if len(pys) > 1:
            V.add('C02/identity', 'split-object', 'incarnation %r is represented by %d different tool objects' % (key, len(pys)))
    # nothing else reachable: every object the tool's messages mention is one of the mentioned incarnations
    for wc, cname in names.items():
        stray_ids = {cl.target.id for cl in st.world.conns[wc].msgs if getattr(cl.target, 'orphan', False)}
        reach = {p for p, o in tr.objects.get(cname, {}).items() if not (o.generation is None and o.id in stray_ids)}
        matched = {p for p in reach if p in py2inc}
        if not V.list and len(reach) != len(matched):
            extra = [tr.objects[cname][p] for p in reach - matched]
            V.add('C02/bijection', 'extra-object', 'objects reachable from %s messages with no counterpart: %r'
                  % (cname, [(o.type, o.id, o.generation) for o in extra][:5]))
    if check_tokens_items is not None:
        outs, cls = shown_pairs(check_tokens_items, st)
        if len(outs) != len(cls):
            V.add('C02/label-token', 'line-count', '%d message lines shown for %d messages' % (len(outs), len(cls)))
        else:
            for o, cl in zip(outs, cls):
                want = (names[cl.conn], cl.target.iface, cl.target.id, W.letters(cl.target.gen))
                if getattr(cl.target, 'orphan', False):
                    if not o.unresolved or (o.iface, o.id) != want[1:3]:
                        V.add('C02/label-token', 'stray-message', 'line %r: a message on never-created id %d shown as a known object' % (o.text, cl.target.id))
                        break
                    continue
                if (o.conn, o.iface, o.id, o.gen) != want or o.unresolved:
                    V.add('C02/label-token', 'target', 'line %r: target token, ground truth %r' % (o.text, want))
                    break
                toks = arg_tokens(o.text)
                wtoks = [(a.kind == 'n', False, a.value.iface, a.value.id, W.letters(a.value.gen))
                         for a in cl.args if a.kind in 'on' and a.value is not None]
                if toks != wtoks:
                    if len(toks) == len(wtoks):
                        V.add('C02/label-token', 'arg', 'line %r: object tokens %r, ground truth %r' % (o.text, toks, wtoks))
                        break
                    V.bump('token_scrape_mismatch_not_judged')
                if cl.destroys is not None and o.destroyed is not None:
                    if o.destroyed[:3] != (cl.destroys.iface, cl.destroys.id, W.letters(cl.destroys.gen)):
                        V.add('C02/label-token', 'destroyed', 'line %r: destroyed token, ground truth %s' % (o.text, cl.destroys.label()))
                        break
    py2one = {}
    for pyid, keys in py2inc.items():
        if len(keys) == 1:
            py2one[pyid] = inc_by_key[next(iter(keys))]
    return py2one


def check_lifetimes(st, tr, V, py2inc, names=None, items=None):
    """C03 clauses"""
    names = names or conn_names(st)
    epoch_first = None
    for _, it in st.lines:
        if isinstance(it, W.Closure):
            epoch_first = it.t_us
            break
    for wc, cname in names.items():
        snaps = tr.msgs.get(cname, [])
        truth = st.world.conns[wc].msgs
        dead_seen = set()
        for i, s in enumerate(snaps[:len(truth)]):
            by_id = {}
            for pyid, (alive, dtime) in s.alive_after.items():
                inc = py2inc.get(pyid)
                if inc is None:
                    continue
                model_alive = inc.destroyed_by is None or inc.destroyed_by > i
                if alive != model_alive:
                    V.add('C03/alive-set', 'alive' if alive else 'dead',
                          '%s after msg %d (%s): %s is %s in the tool, %s in ground truth (destroyed by msg %r)'
                          % (cname, i, truth[i].name, inc.label(), 'alive' if alive else 'dead',
                             'alive' if model_alive else 'dead', inc.destroyed_by))
                if alive:
                    by_id.setdefault(inc.id, []).append(inc)
                    if pyid in dead_seen:
                        V.add('C03/resurrected', 'resurrected', '%s after msg %d: %s alive again' % (cname, i, inc.label()))
                else:
                    dead_seen.add(pyid)
            for id_, lst in by_id.items():
                if len(lst) > 1:
                    V.add('C03/two-alive', 'two-alive', '%s after msg %d: id %d has %d live objects' % (cname, i, id_, len(lst)))
        # lifespans of destroyed objects reachable from messages (explicit and implicit destruction)
        for pyid, o in tr.objects.get(cname, {}).items():
            inc = py2inc.get(pyid)
            if inc is None or inc.t_destroy is None:
                continue
            try:
                ls = o.lifespan()
            except Exception:
                ls = None
            if inc.id == 1:
                continue
            want = (inc.t_destroy - inc.t_create) / 1e6
            if ls is None or abs(ls - want) > 1e-6:
                V.add('C03/lifespan', 'object', '%s %s: lifespan() %r, ground truth %.6f' % (cname, inc.label(), ls, want))
    if items is not None:
        outs, cls = shown_pairs(items, st)
        if len(outs) == len(cls):
            for o, cl in zip(outs, cls):
                if cl.destroys is not None:
                    if o.destroyed is None:
                        V.add('C03/annotation-missing', 'delete_id', 'line %r lacks the destruction annotation for %s' % (o.text, cl.destroys.label()))
                        continue
                    if o.destroyed[:3] != (cl.destroys.iface, cl.destroys.id, W.letters(cl.destroys.gen)):
                        V.add('C03/annotation-subject', 'delete_id', 'line %r annotates %r, ground truth %s' % (o.text, o.destroyed[:3], cl.destroys.label()))
                        continue
                    want = (cl.destroys.t_destroy - cl.destroys.t_create) / 1e6
                    if o.destroyed[3] is None or abs(o.destroyed[3] - want) > TOL4:
                        V.add('C03/lifespan', 'annotation', 'line %r: lifespan %r, ground truth %.6f' % (o.text, o.destroyed[3], want))
                elif o.destroyed is not None:
                    V.add('C03/annotation-spurious', 'other', 'line %r carries a destruction annotation; message destroys nothing' % o.text)
