"""C04 — messages attributed to the right connection; connections isolated (schedules)."""
import re
import copy
import random
import itertools

from .. import logworld as L
from .. import world as W
from .. import rig
from .. import oracles
from . import common
from . import c02

ID = 'C04'
LEVEL = 'exploration'
RUNS = {'quick': 4000}
BUDGET_S = {'thorough': 600}
RULE = ('one evaluation = one interleaving: k in [2,6] (sometimes up to 30) independent per-connection histories (content a '
        'function of (seed, connection index) only) merged by the seeded scheduler into one stream and run through the real '
        'tool, plus one solo replay of every connection in a fresh tool instance; workload B drives open/message/close/re-open '
        'sequences on the connection-id sink with real parsed messages. Non-trivial = at least two connections have messages '
        'interleaved (the merged order is not a concatenation) or an identifier is re-opened; distinct = distinct interleaving '
        'signature (sequence of connection indexes)')
REAL = c02.REAL
STUBBED = c02.STUBBED
ASSUMPTIONS = c02.ASSUMPTIONS + ['the role shown for a connection is judged absolutely only when its first message is '
                                 'get_registry, otherwise relationally (same with and without neighbours)',
                                 'Closed notices are an unordered block (set iteration in the tool)']
SHRINK_FIELDS = ['intents', 'sink_ops']      # (exhaustive walks are reported with their interleaving, not shrunk)

CONN_LINE_RE = re.compile(r'^( => |    )([A-Z]+) \((.*)\): (open|closed), (\d+) messages$')


def generate(seed, tier, index):
    rng = random.Random('%d/gen' % seed)
    if index % 8 == 7:
        # connection-id sink with ONE fault on the output side: the k-th write raises (Ctrl-C inside gdb.write, EPIPE on
        # stdout). The statement is silent about failing output, so only what cannot be right under any reading is judged:
        # nothing announced or reported closed twice, unique names, open connections reachable, no other exception
        sc = generate_sink(seed, rng)
        sc['config']['kind'] = 'sink_fault'
        sc['config']['fault_write'] = rng.randint(0, 12)
        sc['config']['fault_type'] = rng.choice(['KeyboardInterrupt', 'BrokenPipeError'])
        return sc
    if index % 4 == 3:
        return generate_sink(seed, rng)
    if tier == 'thorough' and index % 16 == 2:
        # bonus (the claim stays sampling): ALL order-preserving interleavings of a tiny case, k * len <= 8
        k = rng.choice([2, 2, 3])
        lens = {2: rng.choice([(4, 4), (3, 5), (2, 6), (3, 3)]), 3: rng.choice([(3, 3, 2), (2, 2, 2), (4, 2, 2)])}[k]
        per = [L.gen_conn_intents(seed, c, lens[c], rng.choice(['churn', 'objects', 'mixed']), registry_first=rng.random() < 0.5)
               for c in range(k)]
        cfg = {'kind': 'exhaustive', 'nconn': k, 'sides': [rng.choice(['client', 'server']) for _ in range(k)],
               'dialect': L.pick_dialect(rng, 2), 'epoch_us': 0, 'mode': 'file', 'rig': 'main', 'chunks': [1 << 20],
               'suppress': False, 'synth': True}
        return {'prop': ID, 'seed': seed, 'config': cfg, 'intents': [], 'per_conn': per}
    r = rng.random()
    if r < 0.06:
        nconn = rng.randint(27, 30)
    else:
        nconn = rng.randint(2, 6)
    total = rng.randint(8, 100 if tier == 'quick' else 250)
    per = [L.gen_conn_intents(seed, c, max(1, total // nconn + rng.randint(0, 2)),
                              rng.choice(['mixed', 'churn', 'objects'])) for c in range(nconn)]
    intents = L.interleave(rng, per, chatter_rate=rng.choice([0, 0, 0.1]))
    cfg = {
        'kind': 'interleave',
        'nconn': nconn,
        'sides': [rng.choice(['client', 'server']) for _ in range(nconn)],
        'dialect': L.pick_dialect(rng, 2),
        'epoch_us': rng.choice([0, rng.randrange(1 << 32)]),
        'mode': rng.choice(['file', 'pipe']),
        'rig': 'main',
        'chunks': L.gen_chunks(rng),
        'suppress': False,
        'synth': True,
    }
    if rng.random() < 0.15:
        # a log that starts late: the first lines of the stream are missing (objects unknown, delete_id of unknown ids...);
        # names, notices, roles and message counts must still be per tag
        cfg['headcut'] = rng.randint(1, max(1, min(12, total // 2)))
    return {'prop': ID, 'seed': seed, 'config': cfg, 'intents': intents}


def generate_sink(seed, rng):
    nid = rng.randint(1, 4)
    ops = []
    for _ in range(rng.randint(6, 60)):
        r = rng.random()
        if r < 0.12:
            ops.append(['open', rng.randrange(nid), rng.choice([None, True, False])])
        elif r < 0.22:
            ops.append(['close', rng.randrange(nid)])
        elif r < 0.25:
            ops.append(['close_unknown'])
        elif r < 0.31:
            # the user, between two backend events (GDB mode, or any backend driving the sink while a prompt is open):
            # look at one connection only, or at all of them again
            ops.append(['select', rng.randrange(1 << 16)])
        elif r < 0.37:
            ops.append(['list'])
        elif r < 0.39:
            ops.append(['select_bad'])       # a rejected `connection` command: what is being looked at stays as it was
        else:
            ops.append(['msg', rng.randrange(nid)])
    cfg = {'kind': 'sink', 'nconn': nid, 'sides': ['client'], 'dialect': 'v1.18', 'epoch_us': 0, 'synth': False,
           'per_incarnation': rng.randint(3, 12), 'break_all': rng.random() < 0.4}
    return {'prop': ID, 'seed': seed, 'config': cfg, 'intents': [], 'sink_ops': ops}


def simplifications(sc):
    cfg = sc['config']
    for k, v in (('epoch_us', 0), ('chunks', [1 << 20]), ('mode', 'file')):
        if k in cfg and cfg.get(k) != v:
            c = dict(sc)
            c['config'] = dict(cfg)
            c['config'][k] = v
            yield c


def strip_projection(text):
    """remove the time column and the connection letter from a shown message line, and the lifespan"""
    m = L.MSG_RE.match(text)
    if not m:
        return text
    rest = text[m.start(3) if m.group(3) else m.start(4) if m.group(4) else m.start(5):]
    life = None
    dm = L.DESTROYED_RE.search(rest)
    if dm and dm.group(5) is not None:
        life = float(dm.group(5))
        rest = rest[:dm.start(5)] + 'LIFE' + rest[dm.end(5):]
    return rest, life


def all_merges(lens):
    def rec(remaining, prefix):
        if not any(remaining):
            yield list(prefix)
            return
        for i, r in enumerate(remaining):
            if r:
                remaining[i] -= 1
                prefix.append(i)
                yield from rec(remaining, prefix)
                prefix.pop()
                remaining[i] += 1
    yield from rec(list(lens), [])


def execute_exhaustive(sc):
    per = sc['per_conn']
    total = None
    n = 0
    for order in all_merges([len(p) for p in per]):
        pos = [0] * len(per)
        intents = []
        for c in order:
            intents.append(['tick', 137])
            intents.append(per[c][pos[c]])
            pos[c] += 1
        one = {'prop': ID, 'seed': sc['seed'], 'config': dict(sc['config'], kind='interleave'), 'intents': intents}
        r = execute(one)
        n += 1
        if total is None:
            total = r
        else:
            total['evals'] += r['evals']
            total['nt_keys'] += r['nt_keys']
            for k, v in r['counters'].items():
                total['counters'][k] = total['counters'].get(k, 0) + v
        if r['violations']:
            total['violations'] = r['violations']
            for v in total['violations']:
                v['detail'] += ' [interleaving %s of the exhaustive walk]' % ''.join(map(str, order))
            break
    total['counters']['exhaustive_walks'] = 1
    total['counters']['exhaustive_interleavings'] = n
    total['sample'] = {'config': sc['config'], 'interleavings_walked': n}
    return total


def execute_sink_fault(sc):
    V = common.Viol()
    cfg = sc['config']
    t = rig.tool()
    rig.reset_globals()
    rec = rig.Recorder()
    rig.install_logging(rec)
    state = {'n': 0, 'fired': False}
    fault_exc = KeyboardInterrupt if cfg['fault_type'] == 'KeyboardInterrupt' else BrokenPipeError

    class FaultyStream(t['RecStream']):
        def override_write(self, string):
            k = state['n']
            state['n'] += 1
            if k == cfg['fault_write'] and not state['fired']:
                state['fired'] = True
                rec.add('fault-write', string)
                raise fault_exc()
            rec.add(self.kind, string)
    out = t['Output'](False, True, FaultyStream(rec, 'out'), t['RecStream'](rec, 'err'))
    t['protocol'].load_all(out)
    cm = t['ConnectionManager']()
    ctl = t['Controller'](out, cm, t['matcher'].always, t['matcher'].never)
    now = 0.0
    nextid = {}
    import traceback
    for op in sc['sink_ops']:
        now += 0.001
        try:
            if op[0] == 'open':
                ident = 'id%d' % op[1]
                nextid[ident] = 2
                cm.open_connection(now, ident, op[2])
            elif op[0] == 'close':
                cm.close_connection(now, 'id%d' % op[1])
            elif op[0] == 'close_unknown':
                cm.close_connection(now, 'never-opened')
            elif op[0] == 'msg':
                ident = 'id%d' % op[1]
                if ident not in cm.open_connections and not any(True for _ in ()):
                    # (the harness sends only to identifiers it has opened and not closed since; after a fault during open
                    # the identifier may legitimately be unknown to the tool, which its assertion reports)
                    pass
                if ident in nextid and ident_is_open(cm, ident):
                    n = nextid[ident]
                    nextid[ident] += 1
                    line = ('[%10.3f]  -> wl_display@1.get_registry(new id wl_registry@2)' % (now * 1000) if n == 2 else
                            '[%10.3f]  -> wl_display@1.sync(new id wl_callback@%d)' % (now * 1000, n))
                    _, m = t['parse'].message(line)
                    before = {id(c): len(c.messages()) for c in cm.connections()}
                    cm.message(ident, m)
                    grown = [c for c in cm.connections() if len(c.messages()) != before.get(id(c), 0)]
                    if len(grown) != 1 or not grown[0].is_open():
                        V.add('C04/routing', 'after-fault' if state['fired'] else 'sink', 'a message for %s was delivered to %r' % (
                            ident, [(c.name(), c.is_open()) for c in grown]))
        except fault_exc:
            V.bump('fault_output_write_raised_' + cfg['fault_type'])
        except Exception as e:  # noqa
            V.add('C04/routing', 'exception:' + type(e).__name__, 'after an output-write fault at write %d: %s' % (
                cfg['fault_write'], traceback.format_exc()[-1200:]))
            break
    items = L.out_items(rec)
    news = [o.notice[2] for o in items if o.kind == 'notice' and o.notice[0] == 'New']
    closed = [o.notice[2] for o in items if o.kind == 'notice' and o.notice[0] == 'Closed']
    if len(set(news)) != len(news):
        V.add('C04/open-notice', 'twice', 'a connection was announced twice: %r' % news)
    if len(set(closed)) != len(closed):
        V.add('C04/close-notice', 'twice', 'a connection was reported closed twice: %r (output-write fault at write %d: %s)' % (
            closed, cfg['fault_write'], 'fired' if state['fired'] else 'not reached'))
    names = [c.name() for c in cm.connections()]
    if len(set(names)) != len(names):
        V.add('C04/name-order', 'duplicate', 'connection names %r' % names)
    for c in cm.connections():
        if c.name() in closed and c.is_open():
            V.add('C04/close-notice', 'open-but-reported-closed', 'connection %s was reported closed but is open' % c.name())
    reachable = set(id(c) for c in cm.open_connections.values())
    for c in cm.connections():
        if c.is_open() and id(c) not in reachable:
            V.add('C04/routing', 'open-unreachable', 'connection %s is open but no identifier routes to it (output-write fault at write %d)' % (
                c.name(), cfg['fault_write']))
    key = ''.join(o[0][0] + str(o[1] if len(o) > 1 else '') for o in sc['sink_ops']) + '/f%d' % cfg['fault_write']
    return {'violations': V.list, 'counters': V.counters, 'nt_keys': [key[:200]] if state['fired'] else [], 'inter_key': key,
            'states': [], 'digest': rec.digest(), 'canon': rec.digest(canonical=True), 'sim_us': int(now * 1e6), 'evals': 1,
            'sample': {'config': cfg, 'sink_ops': sc['sink_ops'][:12]}}


def ident_is_open(cm, ident):
    c = cm.open_connections.get(ident) if hasattr(cm, 'open_connections') else None
    return c is not None


def execute(sc):
    if sc['config']['kind'] == 'sink':
        return execute_sink(sc)
    if sc['config']['kind'] == 'sink_fault':
        return execute_sink_fault(sc)
    if sc['config']['kind'] == 'exhaustive':
        return execute_exhaustive(sc)
    V = common.Viol()
    st = L.build_stream(sc, rig.REPO)
    headcut = sc['config'].get('headcut')
    if headcut:
        st.lines = st.lines[headcut:]
        st.steps = [x for x in st.steps if x[0] != 'line'][:0] + [('line', t, it) for t, it in st.lines]
        st.data = ('\n'.join(t for t, _ in st.lines) + ('\n' if st.lines else '')).encode('utf-8')
        V.bump('fault_log_starts_late')
    res, tr = common.observe_file(sc, st, script=('connection', 'quit'))
    names = oracles.conn_names(st)
    inter = ''.join(chr(65 + it.conn % 26) for _, it in st.lines if isinstance(it, W.Closure))
    nontrivial = False
    seq = [it.conn for _, it in st.lines if isinstance(it, W.Closure)]
    # interleaved = some connection's messages are not contiguous
    seen_done = set()
    prev = None
    for c in seq:
        if c != prev:
            if c in seen_done:
                nontrivial = True
                break
            if prev is not None:
                seen_done.add(prev)
            prev = c
    if res.exception is not None:
        V.add('C04/routing', 'exception:' + type(res.exception).__name__, res.traceback[-1500:])
    else:
        items = L.out_items(res.rec)
        # (1) names in order of first appearance; one New before the first message, one Closed after the last line
        first_seen = []
        opened = {}
        for o in items:
            if o.kind == 'notice' and o.notice[0] == 'New':
                if o.notice[2] in opened:
                    V.add('C04/open-notice', 'duplicate', 'connection %s announced twice' % o.notice[2])
                opened[o.notice[2]] = o
                first_seen.append(o.notice[2])
            elif o.kind == 'msg':
                if o.conn == '' and o.unresolved:
                    continue      # an unresolvable target carries no connection name on its line
                if o.conn not in opened:
                    V.add('C04/open-notice', 'missing', 'message line %r before any New notice for %s' % (o.text, o.conn))
        want_names = [names[c] for c in sorted(names, key=lambda c: W.unletters(names[c]))]
        if first_seen != want_names:
            V.add('C04/name-order', 'names', 'connections announced as %r, expected %r in order of first appearance' % (first_seen, want_names))
        if len(names) > 26:
            V.bump('probe_27th_connection')
        last_line_seq = max([o.seq for o in items if o.kind in ('msg', 'pass')] or [-1])
        eof_seq = None
        closed = [o for o in items if o.kind == 'notice' and o.notice[0] == 'Closed']
        if not any(e[1] == 'prompt' for e in res.rec.events):
            # pipe mode has no prompt: ask the same Controller directly, as a later command would
            res.rec.add('prompt', '(pipe mode: direct command)')
            res.controller.process_command('connection')
        prompt_seq = min([e[0] for e in res.rec.events if e[1] == 'prompt'] or [1 << 60])
        live_closed = [o for o in closed if o.seq < prompt_seq]
        if sorted(o.notice[2] for o in live_closed) != sorted(want_names):
            V.add('C04/close-notice', 'count', 'Closed notices %r, expected one for each of %r' % ([o.notice[2] for o in live_closed], want_names))
        if any(o.seq < last_line_seq for o in live_closed):
            V.add('C04/close-notice', 'early', 'a Closed notice precedes the last input line')
        # role: absolute when first message is get_registry
        for wc, nm in names.items():
            msgs = [it for _, it in st.lines if isinstance(it, W.Closure) and it.conn == wc]     # as delivered
            if msgs and msgs[0].name == 'get_registry':
                side = st.world.conns[wc].side
                want_role = 'client' if side == 'client' else 'server'
                o = opened.get(nm)
                if o is not None and o.notice[1] != want_role:
                    V.add('C04/role', 'absolute', 'connection %s announced as %s; its first message is get_registry %s' % (
                        nm, o.notice[1], 'sent' if side == 'client' else 'received'))
                cl = [x for x in live_closed if x.notice[2] == nm]
                if cl and cl[0].notice[1] != want_role:
                    V.add('C04/role', 'closed-notice', 'connection %s closed as %s' % (nm, cl[0].notice[1]))
        # `connection` command listing (issued at the prompt after EOF)
        listing = [CONN_LINE_RE.match(p) for s, k, p in res.rec.events if k == 'out' and s > prompt_seq]
        listing = [m for m in listing if m]
        got = [(m.group(2), m.group(4), int(m.group(5))) for m in listing]
        per_conn_lines = {}
        for _, it in st.lines:
            if isinstance(it, W.Closure):
                per_conn_lines[it.conn] = per_conn_lines.get(it.conn, 0) + 1
        want = [(names[c], 'closed', per_conn_lines.get(c, 0)) for c in sorted(names, key=lambda c: W.unletters(names[c]))]
        if got != want:
            V.add('C04/listing', 'connection-command', '`connection` lists %r, expected %r' % (got[:8], want[:8]))
        if headcut:
            # attribution and projection need the whole history: not judged for a log that starts late
            return {'violations': V.list, 'counters': V.counters, 'nt_keys': [inter[:200] + 'cut%d' % headcut], 'inter_key': inter,
                    'states': [], 'digest': res.rec.digest(), 'canon': res.rec.digest(canonical=True),
                    'sim_us': st.world.now - st.world.epoch_us, 'evals': 1,
                    'sample': {'config': sc['config'], 'interleaving': inter[:80]}}
        # (3) per-connection C02/C03 oracles
        A = common.Viol()
        py2inc = oracles.check_attribution(st, tr, A, names=names, check_tokens_items=items)
        oracles.check_lifetimes(st, tr, A, py2inc, names=names, items=items)
        for v in A.list:
            V.add('C04/routing', v['sig'], v['detail'])
        # (2) relational: projection onto X == solo replay of H_X
        if not V.list:
            proj = {}
            for o in items:
                if o.kind == 'msg':
                    proj.setdefault(o.conn, []).append(strip_projection(o.text))
            for wc, nm in names.items():
                st1 = L.build_stream(sc, rig.REPO, only_conn=wc)
                r1, t1 = common.observe_file(sc, st1, script=('quit',))
                it1 = L.out_items(r1.rec)
                solo = [strip_projection(o.text) for o in it1 if o.kind == 'msg']
                mine = proj.get(nm, [])
                ok = len(solo) == len(mine)
                if ok:
                    for (a, la), (b, lb) in zip(mine, solo):
                        if a != b or (la is None) != (lb is None) or (la is not None and abs(la - lb) > 1.0001e-4):
                            ok = False
                            break
                if not ok:
                    n = 0
                    while n < min(len(solo), len(mine)) and mine[n][0] == solo[n][0]:
                        n += 1
                    V.add('C04/projection', 'differs', 'connection %s: interleaved view differs from its solo replay at its message %d: %r vs solo %r'
                          % (nm, n, mine[n] if n < len(mine) else None, solo[n] if n < len(solo) else None))
                    break
                roles1 = [o.notice[1] for o in it1 if o.kind == 'notice' and o.notice[0] == 'New']
                o = opened.get(nm)
                if o is not None and roles1 and roles1[0] != o.notice[1]:
                    V.add('C04/role', 'relational', 'connection %s is %s with neighbours, %s alone' % (nm, o.notice[1], roles1[0]))
                V.bump('solo_replays')
            # (4) `connection X` + `list` for every connection in turn: what is listed for X is X's own history, whatever was
            # listed for its neighbours a moment ago (connections often have equally many messages here)
            if not V.list and getattr(res, 'controller', None) is not None:
                import traceback
                for wc, nm in sorted(names.items(), key=lambda kv: W.unletters(kv[1])):
                    mark = res.rec.seq
                    try:
                        res.controller.process_command('connection ' + nm)
                        res.controller.process_command('list')
                    except Exception:  # noqa
                        V.add('C04/routing', 'exception:list', traceback.format_exc()[-1200:])
                        break
                    listed = [L.classify(s_, p_) for s_, k_, p_ in res.rec.events if k_ == 'out' and s_ >= mark]
                    rows = [strip_projection(o.text)[0] for o in listed if o.kind == 'msg']
                    wrong = [o.conn for o in listed if o.kind == 'msg' and o.conn not in (nm, '')]
                    mine = [a for a, la in proj.get(nm, [])]
                    if wrong or rows != mine:
                        n = 0
                        while n < min(len(rows), len(mine)) and rows[n] == mine[n]:
                            n += 1
                        V.add('C04/listing', 'per-connection-list', '`connection %s` + `list` shows %d messages (of connections %r), its live view had %d; first '
                              'difference at %d: %r vs %r' % (nm, len(rows), sorted(set(wrong)) or [nm], len(mine), n,
                                                              rows[n] if n < len(rows) else None, mine[n] if n < len(mine) else None))
                        break
                    V.bump('per_connection_listings')
                counts = [len(v) for v in proj.values()]
                if len(counts) != len(set(counts)):
                    V.bump('probe_connections_with_equal_message_counts')
    V.bump('connections', len(names))
    nmsg = len(seq)
    sample = {'config': sc['config'], 'interleaving': inter[:80], 'messages': nmsg}
    return {'violations': V.list, 'counters': V.counters, 'nt_keys': [inter[:200]] if nontrivial else [],
            'inter_key': inter, 'states': [], 'digest': res.rec.digest(), 'canon': res.rec.digest(canonical=True),
            'sim_us': st.world.now - st.world.epoch_us, 'evals': 1 + V.counters.get('solo_replays', 0), 'sample': sample}


def execute_sink(sc, post=None):
    """workload B: open / message / close / re-open on the ConnectionIDSink interface, as a backend does"""
    from .. import track
    V = common.Viol()
    cfg = sc['config']
    t = rig.tool()
    rig.reset_globals()
    rec = rig.Recorder()
    rig.install_logging(rec)
    out = t['Output'](False, True, t['RecStream'](rec, 'out'), t['RecStream'](rec, 'err'))
    t['protocol'].load_all(out)
    cm = t['ConnectionManager']()
    # (with break_all every message is also a breakpoint hit: like the live view, a hit belongs to the connection being looked at)
    ctl = t['Controller'](out, cm, t['matcher'].always, t['matcher'].always if cfg.get('break_all') else t['matcher'].never)
    tr = track.Tracker(rec)
    cm.add_connection_list_listener(tr.make(), True)
    # each incarnation of an identifier gets its own fresh single-connection world history
    model_open = {}      # ident -> (name, world stream iterator state)
    model_all = []       # [name, ident, open?, nmsgs, stream, pos]
    next_name = 0
    now = 0.0
    inc_count = 0
    exc = None
    selected = None
    import traceback
    try:
        for op in sc['sink_ops']:
            now += 0.001
            if op[0] == 'open':
                ident = 'id%d' % op[1]
                if ident in model_open:
                    model_open[ident][2] = False
                sub = {'seed': sc['seed'] * 1000 + inc_count, 'config': {'nconn': 1, 'sides': ['client'], 'dialect': 'v1.18',
                       'epoch_us': 0, 'synth': False},
                       'intents': L.interleave(random.Random(sc['seed'] + inc_count), [L.gen_conn_intents(sc['seed'] + inc_count, 0, cfg['per_incarnation'], 'churn', registry_first=True)])}
                inc_count += 1
                st = L.build_stream(sub, rig.REPO)
                entry = [W.letters(next_name, True), ident, True, 0, st, 0]
                next_name += 1
                model_open[ident] = entry
                model_all.append(entry)
                conn = cm.open_connection(now, ident, op[2])
                if conn.name() != entry[0]:
                    V.add('C04/reopen-fresh', 'name', 'open_connection(%s) returned connection named %s, expected %s' % (ident, conn.name(), entry[0]))
                V.bump('sink_open')
            elif op[0] == 'close':
                ident = 'id%d' % op[1]
                if ident in model_open:
                    if selected is not None and selected != model_open[ident][0]:
                        V.bump('probe_close_while_other_selected')
                    model_open[ident][2] = False
                    del model_open[ident]
                    V.bump('sink_close_open')
                else:
                    V.bump('sink_close_not_open')
                cm.close_connection(now, ident)
            elif op[0] == 'close_unknown':
                cm.close_connection(now, 'never-opened')
                V.bump('sink_close_unknown')
            elif op[0] == 'select':
                # `connection <name>` / `connection all` between backend events: what is announced, reported closed and
                # listed afterwards does not depend on which connection the user is looking at
                k = op[1] % (len(model_all) + 1)
                if k == len(model_all):
                    ctl.process_command('connection all')
                    selected = None
                else:
                    ctl.process_command('connection ' + (model_all[k][0] if op[1] & 1024 else model_all[k][0].lower()))
                    selected = model_all[k][0]
                V.bump('sink_select')
            elif op[0] == 'select_bad':
                ctl.process_command('connection nosuch')
                V.bump('sink_select_rejected')
            elif op[0] == 'list':
                mark = rec.seq
                ctl.process_command('connection')
                rows = [CONN_LINE_RE.match(p_) for s_, k_, p_ in rec.events if k_ == 'out' and s_ >= mark]
                got_rows = [(m_.group(2), m_.group(4), int(m_.group(5)), m_.group(1) == ' => ') for m_ in rows if m_]
                want_rows = [(e_[0], 'open' if e_[2] else 'closed', e_[3], e_[0] == selected) for e_ in model_all]
                if got_rows != want_rows:
                    V.add('C04/listing', 'sink', '`connection` between backend events lists %r, expected %r' % (got_rows[:8], want_rows[:8]))
                V.bump('sink_list')
                if any(not e_[2] for e_ in model_all[:-1]) and any(e_[2] for e_ in model_all):
                    V.bump('probe_listing_open_after_closed')
            elif op[0] == 'msg':
                ident = 'id%d' % op[1]
                e = model_open.get(ident)
                if e is None:
                    continue
                st = e[4]
                cls = [x for x in st.lines]
                if e[5] >= len(cls):
                    continue
                text, cl = cls[e[5]]
                e[5] += 1
                e[3] += 1
                _, m = t['parse'].message(text)
                mark = rec.seq
                cm.message(ident, m)
                V.bump('sink_msg')
                got_out = [L.classify(s_, p_) for s_, k_, p_ in rec.events if k_ == 'out' and s_ >= mark]
                n_shown = sum(1 for o_ in got_out if o_.kind == 'msg')
                n_stop = sum(1 for o_ in got_out if o_.kind == 'other' and o_.text.startswith(L.STOPPED_PREFIX))
                visible = selected is None or selected == e[0]
                if n_shown != (1 if visible else 0) or n_stop != (1 if visible and cfg.get('break_all') else 0):
                    V.add('C04/isolation', 'view', 'a message on connection %s while looking at %s produced %d message lines and %d breakpoint notices'
                          % (e[0], selected or 'all connections', n_shown, n_stop))
                if not visible:
                    V.bump('probe_message_on_connection_not_looked_at')
    except Exception as ex:  # noqa
        exc = ex
        V.add('C04/routing', 'exception:' + type(ex).__name__, traceback.format_exc()[-1500:])
    reopened = False
    if exc is None:
        conns = cm.connections()
        got = [(c.name(), c.is_open(), len(c.messages())) for c in conns]
        want = [(e[0], e[2], e[3]) for e in model_all]
        if got != want:
            V.add('C04/reopen-fresh', 'list', 'connections() = %r, expected %r' % (got, want))
        else:
            idents = [e[1] for e in model_all]
            reopened = len(set(idents)) < len(idents)
            for e, c in zip(model_all, conns):
                st = e[4]
                sub_names = {0: e[0]}
                A = common.Viol()
                # compare only the prefix that was delivered
                truth = st.world.conns[0].msgs
                saved = list(truth)
                del truth[e[3]:]
                try:
                    py2inc = oracles.check_attribution(st, tr, A, names=sub_names)
                finally:
                    truth[:] = saved
                for v in A.list:
                    V.add('C04/reopen-fresh' if 'bijection' not in v['sig'] else 'C04/routing', v['sig'], 'connection %s (%s): %s' % (e[0], e[1], v['detail']))
        news = [o.notice[2] for o in L.out_items(rec) if o.kind == 'notice' and o.notice[0] == 'New']
        if news != [e[0] for e in model_all]:
            V.add('C04/open-notice', 'sink', 'New notices %r, expected %r' % (news, [e[0] for e in model_all]))
        closed = sorted(o.notice[2] for o in L.out_items(rec) if o.kind == 'notice' and o.notice[0] == 'Closed')
        if closed != sorted(e[0] for e in model_all if not e[2]):
            V.add('C04/close-notice', 'sink', 'Closed notices %r, expected %r' % (closed, sorted(e[0] for e in model_all if not e[2])))
    if post is not None and exc is None:
        post(cm, ctl, rec, model_all, V)
    if reopened:
        V.bump('probe_identifier_reopened')
    key = ''.join(o[0][0] + str(o[1] if len(o) > 1 else '') for o in sc['sink_ops'])
    return {'violations': V.list, 'counters': V.counters, 'nt_keys': [key[:200]] if reopened else [], 'inter_key': key,
            'states': [], 'digest': rec.digest(), 'canon': rec.digest(canonical=True), 'sim_us': int(now * 1e6), 'evals': 1,
            'sample': {'config': cfg, 'sink_ops': sc['sink_ops'][:12]}}
