"""Rigs that run the real tool inside the simulator (log world).

Everything here binds seams from the outside; nothing in /repo is modified.
"""
import io
import os
import sys
import logging
import hashlib
import threading

REPO = os.environ.get('VERIF_REPO', '/repo')


def setup_repo_path():
    if sys.path[0] != REPO:
        sys.path.insert(0, REPO)
    sys.dont_write_bytecode = True


class RunTimeout(BaseException):
    """the harness's own wall-clock guard (SIGALRM) fired.  Derived from BaseException so that no catch-all of the tool
    under test swallows it, and re-raised by every capture site of the rigs: it is never the tool's exception."""


class HarnessError(Exception):
    pass


class ScriptExhausted(Exception):
    """the tool asked for more input than the scripted user had (prompting after resume/quit)"""


class SimDeadlock(Exception):
    pass


class Recorder:
    """global event log of one run: every observation gets the next sequence number"""

    def __init__(self):
        self.seq = 0
        self.events = []

    def add(self, kind, payload=None):
        self.events.append((self.seq, kind, payload))
        self.seq += 1
        return self.seq - 1

    def of(self, *kinds):
        return [e for e in self.events if e[1] in kinds]

    def digest(self, canonical=False):
        h = hashlib.sha256()
        evs = self.events
        if canonical:
            evs = canonicalize(evs)
        for e in evs:
            h.update(repr(e).encode('utf-8', 'backslashreplace'))
        return h.hexdigest()


import re as _re
_SGR = _re.compile('\x1b\\[[0-9;]*m')


def canonicalize(events):
    """sort each maximal run of 'Closed ... connection' notices / close notifications (their order is
    a set iteration in the tool) and drop sequence numbers"""
    out = []
    run = []

    def flush():
        if run:
            out.extend(sorted(run))
            del run[:]
    for e in events:
        if e[1] == 'out' and isinstance(e[2], str) and _SGR.sub('', e[2]).startswith('Closed '):
            run.append(('closed', e[2]))
        elif e[1] == 't-close':
            run.append(('t-close', e[2]))
        else:
            flush()
            out.append((e[1], e[2]))
    flush()
    return out


class LogCapture(logging.Handler):
    def __init__(self, rec):
        super().__init__(level=logging.WARNING)
        self.rec = rec

    def emit(self, record):
        try:
            msg = record.getMessage()
        except Exception:
            msg = str(record.msg)
        self.rec.add('log', (record.levelname, msg))


_log_handler = [None]


def install_logging(rec):
    root = logging.getLogger()
    for h in list(root.handlers):
        root.removeHandler(h)
    h = LogCapture(rec)
    root.addHandler(h)
    _log_handler[0] = h


class SimRawIO(io.RawIOBase):
    """The bytes of a simulated file / stdin.  Chunk sizes come from the scenario; on_read(k, total)
    is called before the k-th raw read is served (pace oracle, interrupts)."""

    def __init__(self, data, chunks, rec, on_read=None, interrupt_at=None, name='sim'):
        super().__init__()
        self.data = data
        self.pos = 0
        self.chunks = list(chunks) if chunks else [1 << 20]
        self.k = 0
        self.rec = rec
        self.on_read = on_read
        self.interrupt_at = interrupt_at
        self.eof_delivered = False
        self.name = name

    def readable(self):
        return True

    def fileno(self):
        raise OSError('simulated stream has no fileno')

    def isatty(self):
        return False

    def readinto(self, b):
        k = self.k
        self.k += 1
        if self.on_read is not None:
            self.on_read(k, self.pos)
        if self.interrupt_at is not None and k == self.interrupt_at:
            self.rec.add('interrupt', self.pos)
            raise KeyboardInterrupt()
        remaining = len(self.data) - self.pos
        if remaining <= 0:
            self.rec.add('read', 0)
            self.eof_delivered = True
            return 0
        want = self.chunks[k % len(self.chunks)]
        n = max(1, min(want, remaining, len(b)))
        b[:n] = self.data[self.pos:self.pos + n]
        self.pos += n
        self.rec.add('read', n)
        return n


def text_stack(raw, errors='strict'):
    """exactly what open(path) / sys.stdin / os.fdopen(fd,'r') build in a UTF-8 locale"""
    return io.TextIOWrapper(io.BufferedReader(raw, 8192), encoding='utf-8', errors=errors)


# --------------------------------------------------------------------------- tool access

_tool = {}


def tool():
    """import the repo's modules once per worker; memoise XML parsing (C07 is not claimed; load_all and
    load() still run for real on every main.main())."""
    if _tool:
        return _tool
    setup_repo_path()
    import main as tool_main
    from core import wl, matcher
    from core import util as core_util
    from core.wl import protocol
    from core.output import stream, Output
    from frontends.tui import parse_args, Controller, TerminalUI
    from backends.libwayland_debug_output import parse as parse_mod
    from backends.libwayland_debug_output import runner as runner_mod
    from core import ConnectionManager
    import interfaces
    real_parse = protocol.parse_protocol
    memo = {}

    def parse_protocol_memo(xmlfile):
        if xmlfile not in memo:
            memo[xmlfile] = real_parse(xmlfile)
        return memo[xmlfile]
    protocol.parse_protocol = parse_protocol_memo
    real_listdir = os.listdir

    class _OsShim:
        def __getattr__(self, n):
            return getattr(os, n)

        def listdir(self, p):
            return sorted(real_listdir(p))
    protocol.os = _OsShim()
    _tool.update(main=tool_main, wl=wl, matcher=matcher, util=core_util, protocol=protocol,
                 stream=stream, Output=Output, parse_args=parse_args, Controller=Controller,
                 TerminalUI=TerminalUI, parse=parse_mod, runner=runner_mod,
                 ConnectionManager=ConnectionManager, interfaces=interfaces)

    class RecStream(stream.Base):
        def __init__(self, rec, kind):
            self.rec = rec
            self.kind = kind

        def override_write(self, string):
            # stream.Std prints to a UTF-8 stdout/stderr: text that cannot be encoded fails there (lone surrogates)
            string.encode('utf-8')
            self.rec.add(self.kind, string)
    _tool['RecStream'] = RecStream
    return _tool


def reset_globals():
    t = tool()
    t['wl'].Message.base_time = None
    t['parse'].WlPatterns.instance = None
    t['util'].set_color_output(False)


class ScriptedUser:
    def __init__(self, rec, script):
        self.rec = rec
        self.script = list(script)
        self.i = 0

    def __call__(self, prompt):
        self.rec.add('prompt', prompt)
        if self.i >= len(self.script):
            raise ScriptExhausted()
        cmd = self.script[self.i]
        self.i += 1
        self.rec.add('cmd', cmd)
        return cmd


class MainResult:
    def __init__(self):
        self.rec = None
        self.exit_code = None
        self.exception = None
        self.traceback = None
        self.raw = None
        self.controller = None
        self.conn_manager = None
        self.main_error = None
        self.main_error_tb = None


def run_main(argv, data, chunks, script=('quit',), on_read=None, interrupt_at=None, stdin_errors='strict',
             rec=None, run_shim=None, capture=False, tracker=None, open_error=None):
    """Start the tool the way __main__ does: parse_args -> set_color_output -> Output -> main.main.
    Mode is taken from argv (-l FILE: file; -p: pipe; -r ...: run, needs run_shim)."""
    t = tool()
    reset_globals()
    rec = rec or Recorder()
    install_logging(rec)
    res = MainResult()
    res.rec = rec
    raw = SimRawIO(data, chunks, rec, on_read, interrupt_at)
    res.raw = raw
    m = t['main']
    out_stream = t['RecStream'](rec, 'out')
    err_stream = t['RecStream'](rec, 'err')
    user = ScriptedUser(rec, script)
    saved_stdin = sys.stdin
    saved_runner_os, saved_runner_sub = t['runner'].os, t['runner'].subprocess
    saved_runner_threading = t['runner'].threading
    real_controller = t['Controller']

    def sim_open(path, *a, **kw):
        rec.add('open', path)
        if open_error is not None:
            # I/O fault: the file can not be opened (it does not exist)
            rec.add('fault-open', open_error)
            raise {'FileNotFoundError': FileNotFoundError}[open_error](2, 'No such file or directory', path)
        mode = a[0] if a else kw.get('mode', 'r')
        if 'b' in mode:
            return io.BufferedReader(raw, 8192)
        return io.TextIOWrapper(io.BufferedReader(raw, 8192), encoding=kw.get('encoding') or 'utf-8',
                                errors=kw.get('errors') or 'strict', newline=kw.get('newline'))
    try:
        m.open = sim_open
        sys.stdin = text_stack(raw, stdin_errors)
        if run_shim is not None:
            t['runner'].os = run_shim.os_shim
            t['runner'].subprocess = run_shim.subprocess_shim
            t['runner'].threading = run_shim.threading_shim
        if capture or tracker is not None:
            def capturing_controller(*a, **kw):
                c = real_controller(*a, **kw)
                res.controller = c
                res.conn_manager = a[1]
                if tracker is not None:
                    a[1].add_connection_list_listener(tracker.make(), True)
                return c
            m.Controller = capturing_controller
        try:
            args = t['parse_args'](list(argv))
            t['util'].set_color_output(args.show_color)
            t['util'].set_verbose(args.show_verbose)
            output = t['Output'](args.show_verbose, args.show_unprocessed_output, out_stream, err_stream)
            m.main(args, output, user)
        except SystemExit as e:
            res.exit_code = e.code if e.code is not None else 0
            rec.add('exit', res.exit_code)
        except (HarnessError, SimDeadlock, RunTimeout):
            raise
        except RuntimeError as e:
            # what __main__ does: logging.error(e); exit(1)
            import traceback
            res.main_error = str(e)
            res.main_error_tb = traceback.format_exc()
            res.exit_code = 1
            rec.add('main-error', str(e))
        except BaseException as e:  # noqa: the whole point is to see what escapes
            import traceback
            res.exception = e
            res.traceback = traceback.format_exc()
            rec.add('exception', type(e).__name__)
    finally:
        if 'open' in m.__dict__:
            del m.__dict__['open']
        m.Controller = real_controller
        sys.stdin = saved_stdin
        t['runner'].os, t['runner'].subprocess = saved_runner_os, saved_runner_sub
        t['runner'].threading = saved_runner_threading
        t['util'].set_color_output(False)
    return res


# --------------------------------------------------------------------------- component rig

class LineSource:
    """file-like object for Parser.parse_all whose readline() lets the user actor run commands
    *between* two reads, the way GDB mode interleaves commands with message arrival."""

    def __init__(self, steps, rec, run_cmd, on_line=None, run_close=None, nonewline=False):
        self.run_close = run_close
        # the stream may end without a final newline (a producer that was killed, `printf` without \n): the last line is then
        # returned as it is, the way a file object does
        self.last_line_index = max([i for i, s_ in enumerate(steps) if s_[0] == 'line'] or [-1]) if nonewline else -1
        self.steps = steps          # list of ('line', text) | ('cmd', text) | ('close', connection tag)
        self.i = 0
        self.rec = rec
        self.run_cmd = run_cmd
        self.on_line = on_line

    def readline(self):
        while self.i < len(self.steps):
            kind, payload = self.steps[self.i]
            self.i += 1
            if kind == 'cmd':
                self.rec.add('cmd', payload)
                self.run_cmd(payload)
                continue
            if kind == 'close':
                self.rec.add('close', payload)
                if self.run_close is not None:
                    self.run_close(payload)
                continue
            k = self.rec.add('line', payload)
            if self.on_line is not None:
                self.on_line(k, payload)
            if self.i - 1 == self.last_line_index and payload.strip():
                return payload
            return payload + '\n'
        return ''


class ComponentResult:
    pass


def run_component(steps, filter_text=None, break_text=None, show_unprocessed=True, color=False, rec=None,
                  listener_factory=None, post_cmds=(), nonewline=False):
    """Parser + ConnectionManager + Controller wired as main.main wires them; commands interleaved."""
    t = tool()
    reset_globals()
    rec = rec or Recorder()
    install_logging(rec)
    t['util'].set_color_output(color)
    res = ComponentResult()
    res.rec = rec
    res.exception = None
    res.traceback = None
    try:
        out = t['Output'](False, show_unprocessed, t['RecStream'](rec, 'out'), t['RecStream'](rec, 'err'))
        t['protocol'].load_all(out)
        cm = t['ConnectionManager']()
        fm = t['matcher'].always if filter_text is None else t['matcher'].parse(filter_text).simplify()
        bm = t['matcher'].never if break_text is None else t['matcher'].parse(break_text).simplify()
        ctl = t['Controller'](out, cm, fm, bm)
        res.controller = ctl
        res.conn_manager = cm
        if listener_factory is not None:
            cm.add_connection_list_listener(listener_factory(cm), True)
        parser = t['parse'].Parser(out, cm)
        src = LineSource(steps, rec, ctl.process_command,
                         run_close=lambda tag: cm.close_connection(parser.last_time, tag), nonewline=nonewline)
        res.parser = parser
        parser.parse_all(src)
        rec.add('eof')
        parser.cleanup()
        for c in post_cmds:
            rec.add('cmd', c)
            ctl.process_command(c)
    except (HarnessError, SimDeadlock, RunTimeout):
        raise
    except BaseException as e:  # noqa
        import traceback
        res.exception = e
        res.traceback = traceback.format_exc()
        rec.add('exception', type(e).__name__)
    finally:
        t['util'].set_color_output(False)
    return res
