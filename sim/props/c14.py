"""C14 — displayed object and connection labels are unambiguous and usable as matchers."""
import random

from .. import logworld as L
from .. import world as W
from .. import refmatch as R
from .. import session as S
from .. import oracles
from .. import rig
from . import common

ID = 'C14'
LEVEL = 'exploration'
RUNS = {'quick': 2400}
BUDGET_S = {'thorough': 600}
RULE = ('index 0 is a finite enumeration (said plainly: not simulation): number_to_letter_id / letter_id_to_number against an '
        'independent bijective base-26 for all 475254 indexes through four letters, both cases and directions, plus 100000 random '
        'indexes up to 1e18. Every other evaluation is one simulated session with heavy id churn on 1-30 connections: every '
        'id+letters token and connection name harvested from the tool\'s own output is fed back by the user actor as `list X: <label>` '
        'and `list X:`; the listed messages must be exactly the ground-truth messages on / mentioning / creating / destroying that '
        'incarnation, resp. belonging to that connection. Non-trivial = the session has an id with >= 2 incarnations or >= 2 '
        'connections; distinct = hash of (table shape, interleaving)')
REAL = ['core.letter_id_generator', 'Parser, ConnectionManager, ConnectionImpl, Controller, core.matcher, core.wl.*']
STUBBED = ['line source', 'output streams (recording)', 'XML parse results memoised per worker']
ASSUMPTIONS = ['labels are scraped from the tool\'s output lines with string arguments removed',
               'expected selection is computed from ground truth by (connection, id, incarnation index)']
SHRINK_FIELDS = ['intents', 'sink_ops']
DETERMINISM_RUNS = 16
GDB_LANES = (14, 15)     # the same label queries on sessions that arrive as libwayland closures under the GDB plugin (fake gdb)


def generate(seed, tier, index):
    rng = random.Random('%d/gen' % seed)
    from . import c02
    if c02.in_gdb_world():
        sc = c02.gen_gdb(seed, tier, ID)
        sc['config'].update({'kind': 'session', 'harvest_seed': rng.randrange(1 << 30), 'max_queries': 40 if tier == 'quick' else 120})
        return sc
    if index == 0:
        return {'prop': ID, 'seed': seed, 'config': {'kind': 'bijection'}, 'intents': []}
    if index % 8 == 7:
        # connection names under open / duplicate open / close / re-open on the connection-id sink
        from . import c04
        sc = c04.generate_sink(seed, rng)
        sc['prop'] = ID
        sc['config']['kind'] = 'sink'
        return sc
    r = rng.random()
    nconn = rng.randint(27, 30) if r < 0.08 else rng.choice([1, 2, 3, 4])
    total = rng.randint(20, 140 if tier == 'quick' else 300)
    if index % c02.DEEP_EVERY[tier] == 1:
        # > 702 incarnations of one id: three-letter labels typed back as matchers
        nconn = rng.choice([1, 2])
        per = [L.gen_deep_intents(seed, 0)]
        if nconn == 2:
            per.append(L.gen_conn_intents(seed, 1, rng.randint(5, 60), rng.choice(['mixed', 'churn'])))
    else:
        per = [L.gen_conn_intents(seed, c, max(2, total // nconn), rng.choice(['churn', 'longchurn', 'objects', 'mixed']))
               for c in range(nconn)]
    intents = L.interleave(rng, per)
    clash = False
    if index % 5 == 3:
        # ill-formed on purpose: messages naming the id of a live object under another interface; the tool shows them as
        # `unresolved type@id?`, and a label `X: <id>a` typed back must not select them
        r3 = random.Random('%d/clash' % seed)
        out = []
        for k, it in enumerate(intents):
            out.append(it)
            if it[0] == 'act' and k > len(intents) // 4 and r3.random() < 0.12:
                out.append(['act', it[1], 'orphan_clash', r3.randrange(1 << 30), r3.randrange(1 << 30), r3.randrange(1 << 30)])
                clash = True
        intents = out
    illformed = False
    if index % 10 == 9:
        # ill-formed on purpose: a second get_registry naming a registry id that is still alive (reconnect / glued logs without
        # connection tags).  Only the clauses that hold for every history are judged: no two distinct objects of a connection
        # share a displayed label, no two connections share a name
        r4 = random.Random('%d/dupreg' % seed)
        acts = [k for k, it in enumerate(intents) if it[0] == 'act']
        for k in sorted(r4.sample(acts, min(len(acts), r4.randint(1, 2))), reverse=True):
            if k > 2:
                intents.insert(k, ['act', intents[k][1], 'dup_registry', r4.randrange(1 << 30), r4.randrange(1 << 30), r4.randrange(1 << 30)])
                illformed = True
    cfg = {'kind': 'session', 'nconn': nconn, 'clash': clash, 'illformed': illformed, 'sides': [rng.choice(['client', 'server']) for _ in range(nconn)],
           'dialect': L.pick_dialect(rng, nconn), 'epoch_us': 0, 'suppress': True, 'rig': 'component',
           'harvest_seed': rng.randrange(1 << 30), 'max_queries': 40 if tier == 'quick' else 120}
    return {'prop': ID, 'seed': seed, 'config': cfg, 'intents': intents}


def bijection():
    t = rig.tool()
    from core.letter_id_generator import number_to_letter_id, letter_id_to_number
    V = common.Viol()
    n = 26 + 26**2 + 26**3 + 26**4
    seen = set()
    for i in range(n):
        lo = number_to_letter_id(i, False)
        up = number_to_letter_id(i, True)
        want = W.letters(i)
        if lo != want or up != want.upper():
            V.add('C14/bijection', 'forward', 'number_to_letter_id(%d) = %r / %r, expected %r' % (i, lo, up, want))
            break
        if letter_id_to_number(lo) != i or letter_id_to_number(up) != i:
            V.add('C14/bijection', 'backward', 'letter_id_to_number(%r) = %r, expected %d' % (lo, letter_id_to_number(lo), i))
            break
        if lo in seen:
            V.add('C14/bijection', 'repeat', '%r repeated' % lo)
            break
        seen.add(lo)
    rng = random.Random(14)
    for _ in range(100000):
        i = rng.randrange(10 ** rng.randint(1, 18))
        s = number_to_letter_id(i, False)
        if s != W.letters(i) or letter_id_to_number(s) != i:
            V.add('C14/bijection', 'sampled', 'index %d -> %r -> %r' % (i, s, letter_id_to_number(s)))
            break
    V.bump('bijection_indexes_enumerated', n)
    V.bump('bijection_indexes_sampled', 100000)
    return {'violations': V.list, 'counters': V.counters, 'nt_keys': ['bijection'], 'inter_key': 'bijection',
            'states': [], 'digest': 'bijection', 'canon': 'bijection', 'sim_us': 0, 'evals': n + 100000,
            'sample': {'kind': 'bijection', 'enumerated': n, 'sampled': 100000}}


def execute_sink(sc):
    from . import c04

    def post(cm, ctl, rec, model_all, V):
        names = [c.name() for c in cm.connections()]
        if len(set(names)) != len(names):
            V.add('C14/duplicate-name', 'sink', 'distinct connections share a name: %r' % names)
            return
        ctl.process_command('connection all')
        for c in cm.connections():
            start = len(rec.events)
            ctl.process_command('list %s:' % c.name())
            outs = [L.classify(s, p) for s, k, p in rec.events[start:] if k == 'out']
            shown = [o for o in outs if o.kind == 'msg']
            V.bump('queries_conn')
            if len(shown) != len(c.messages()) or any(o.conn != c.name() for o in shown):
                V.add('C14/conn-matcher', 'sink', '`list %s:` shows %d lines (connections %r), connection %s has %d messages'
                      % (c.name(), len(shown), sorted(set(o.conn for o in shown)), c.name(), len(c.messages())))
                return
    r = c04.execute_sink(sc, post=post)
    keep = []
    for v in r['violations']:
        if v['sig'].startswith('C14/'):
            keep.append(v)
        elif 'name' in v['trigger'] or v['sig'] in ('C04/open-notice', 'C04/close-notice'):
            keep.append({'sig': 'C14/duplicate-name', 'trigger': v['sig'], 'detail': v['detail']})
    r['violations'] = keep
    return r


def execute(sc):
    if sc['config'].get('kind') == 'bijection':
        return bijection()
    if sc['config'].get('kind') == 'sink':
        return execute_sink(sc)
    cfg = sc['config']
    V = common.Viol()
    if cfg.get('world') == 'gdb':
        from . import c02, c06
        sim, st, _names, _items, exc = c02.observe_gdb(sc)
        res = c06.GdbRes()
        res.rec = sim.rec
        res.controller = sim.controller
        res.exception = RuntimeError('exception under the GDB plugin') if exc else None
        res.traceback = exc or ''
        tr = sim.tracker
        V.counters.update(sim.counters)
        V.bump('gdb_world_sessions')
    else:
        st, res, tr, metas = S.run(sc)
    names = oracles.conn_names(st)
    queries = []
    if res.exception is not None:
        V.add('C14/label-matcher', 'exception:' + type(res.exception).__name__, res.traceback[-1500:])
    elif cfg.get('illformed'):
        V.bump('illformed_sessions_uniqueness_only')
        for nm, objs in tr.objects.items():
            by_label = {}
            for o in objs.values():
                if o.generation is None:
                    continue
                by_label.setdefault(o.id_str(), []).append(o)
            for lab, lst in by_label.items():
                if len(lst) > 1:
                    V.add('C14/duplicate-label', 'objects', 'connection %s: %d distinct objects display as %s' % (nm, len(lst), lab))
        cnames = [c.name() for c in tr.conns]
        if len(set(cnames)) != len(cnames):
            V.add('C14/duplicate-name', 'names', 'connection names %r' % cnames)
    else:
        items = L.out_items(res.rec)
        # harvest labels from the tool's own output
        labels = []
        seen = set()
        for o in items:
            if o.kind != 'msg':
                continue
            toks = [(o.id, o.gen)]
            at = oracles.arg_tokens(o.text) or []
            toks += [(t[3], t[4]) for t in at]
            if o.destroyed:
                toks.append((o.destroyed[1], o.destroyed[2]))
            for id_, gen in toks:
                if gen == '?':
                    continue
                k = (o.conn, id_, gen)
                if k not in seen:
                    seen.add(k)
                    labels.append(k)
        # tool-side uniqueness of labels / names
        for nm, objs in tr.objects.items():
            by_label = {}
            for o in objs.values():
                if o.generation is None:
                    continue
                lab = o.id_str()      # what the tool displays (colour is off in this rig)
                by_label.setdefault(lab, []).append(o)
            for lab, lst in by_label.items():
                if len(lst) > 1:
                    V.add('C14/duplicate-label', 'objects', 'connection %s: %d distinct objects display as %s' % (nm, len(lst), lab))
        # ground truth: distinct incarnations never share a displayed token
        shown_labels = {}
        cnames = [c.name() for c in tr.conns]
        if len(set(cnames)) != len(cnames):
            V.add('C14/duplicate-name', 'names', 'connection names %r' % cnames)
        rng = random.Random(cfg['harvest_seed'])
        rng.shuffle(labels)
        labels.sort(key=lambda l: 0 if len(l[2]) >= 3 else 1)      # three-letter labels, when the history reached them, are asked first (stable: the rest stays shuffled)
        nlong = sum(1 for l in labels if len(l[2]) >= 3)
        if nlong > 6:
            labels = labels[:6] + labels[nlong:]
        clash_ids = {(names.get(it.conn), it.target.id) for _, it in st.lines
                     if isinstance(it, W.Closure) and getattr(it.target, 'orphan', False)}
        if clash_ids:
            labels.sort(key=lambda l: 0 if (l[0], l[1]) in clash_ids else 1)     # labels of ids that also occur unresolved first
            V.bump('probe_unresolvable_message_on_a_labelled_id')
        queries = []
        for (cn, id_, gen) in labels[:cfg['max_queries']]:
            text = 'list %s: %d%s' % (cn, id_, gen)
            m = {'kind': 'list', 'alts': [{'conn': cn, 'bare': True, 'obj': ['idgen', id_, W.unletters(gen)], 'name': None, 'args': None}], 'excl': []}
            queries.append((text, m))
        for cn in sorted(set(l[0] for l in labels))[:6]:
            m = {'kind': 'list', 'alts': [{'conn': cn, 'bare': True, 'obj': None, 'name': None, 'args': None}], 'excl': []}
            queries.append(('list %s:' % cn, m))
        ctl = res.controller
        start = len(res.rec.events)
        res.rec.add('cmd', 'connection all')
        ctl.process_command('connection all')
        # a label typed as a matcher means the same whatever filter / breakpoint happens to be in force
        pre = random.Random(cfg['harvest_seed'] + 1).choice([None, 'filter wl_callback', 'filter ! wl_display', 'breakpoint .sync',
                                                             'filter .delete_id, wl_registry ! .bind'])
        if pre:
            ctl.process_command(pre)
            if random.Random(cfg['harvest_seed'] + 2).random() < 0.6:
                ctl.process_command('breakpoint ! .done')
                ctl.process_command('breakpoint .sync')
        for text, m in queries:
            res.rec.add('cmd', text)
            ctl.process_command(text)
        segs = [s for s in S.segments(res.rec) if s.kind == 'cmd' and s.seq >= res.rec.events[start][0]][1:]
        recorded = [it for _, it in st.lines if isinstance(it, W.Closure)]
        t0 = recorded[0].t_us if recorded else 0
        fstate = S.MState('star')

        def rep(group, sig, trigger, detail):
            V.add('C14/conn-matcher' if trigger_is_conn[0] else 'C14/label-matcher', sig, detail)
        trigger_is_conn = [False]
        for seg, (text, m) in zip(segs, queries):
            trigger_is_conn[0] = m['alts'][0]['obj'] is None
            S.judge_list(seg, {'t': 'list', 'm': m, 'cap': None}, fstate, None, recorded, names, t0, V, rep, list(names.values()))
            V.bump('queries_conn' if trigger_is_conn[0] else 'queries_label')
            if not trigger_is_conn[0] and m['alts'][0]['obj'][2] >= 702:
                V.bump('queries_label_three_letters')
        # labels typed into an *accumulating* command: `filter !`, `filter .<name>`, `filter X: <label>`, then `list` with no
        # argument must show exactly what the accumulated filter (name alternative OR label) selects
        if not V.list:
            import random as _r
            r2 = _r.Random(cfg['harvest_seed'] + 3)
            msgnames = sorted({c.name for c in recorded})
            for (cn, id_, gen) in labels[:4]:
                nm = r2.choice(msgnames) if msgnames else 'sync'
                lab = {'conn': cn, 'bare': True, 'obj': ['idgen', id_, W.unletters(gen)], 'name': None, 'args': None}
                pat = {'conn': None, 'bare': False, 'obj': None, 'name': nm, 'args': None}
                fs = S.MState('star')
                cmds = [('filter !', {'kind': 'bang'}), ('filter .%s' % nm, {'kind': 'list', 'alts': [pat], 'excl': []}),
                        ('filter %s: %d%s' % (cn, id_, gen), {'kind': 'list', 'alts': [lab], 'excl': []})]
                for text, m in cmds:
                    ctl.process_command(text)
                    fs.apply(m)
                mark = res.rec.add('cmd', 'list')
                ctl.process_command('list')
                seg = [x for x in S.segments(res.rec) if x.kind == 'cmd' and x.seq == mark][0]
                trigger_is_conn[0] = False
                S.judge_list(seg, {'t': 'list', 'm': None, 'cap': None}, fs, None, recorded, names, t0, V, rep, list(names.values()))
                V.bump('queries_label_through_accumulating_filter')
                if V.list:
                    V.list[-1]['detail'] = 'after %r: %s' % ([c[0] for c in cmds], V.list[-1]['detail'])
                    break
    maxgen = max([len(l) for c in st.world.conns for l in c.table.values()] or [0])
    if maxgen > 26:
        V.bump('probe_label_two_letters')
    if maxgen > 702:
        V.bump('probe_label_three_letters')
    if len(names) > 26:
        V.bump('probe_27th_connection')
    shape = tuple(sorted((len(l)) for c in st.world.conns for l in c.table.values()))
    inter = ''.join(chr(65 + it.conn % 26) for _, it in st.lines if isinstance(it, W.Closure))
    nontrivial = maxgen >= 2 or len(names) >= 2
    return {'violations': V.list, 'counters': V.counters, 'nt_keys': [repr(shape) + inter[:80]] if nontrivial else [],
            'inter_key': inter, 'states': [repr(shape)], 'digest': res.rec.digest(), 'canon': res.rec.digest(canonical=True),
            'sim_us': st.world.now - st.world.epoch_us, 'evals': 1,
            'sample': {'config': cfg, 'queries': [q[0] for q in (queries if res.exception is None else [])][:6]}}
