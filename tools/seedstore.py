#!/usr/bin/env python3
"""Store evaluated seeded changes under /verif/seeded: tools/seedstore.py <seed-out dir> <round> <descriptions.json>

descriptions.json: {"C02": ["needs to manifest (patch.diff)", "needs to manifest (patch2.diff)"], ...}
Expects result.json / result2.json written by tools/seedall.sh next to each patch.  Nothing is stored unless the patch
applies, the baseline suite still passes, and the demo fails with / passes without the change."""
import os
import re
import sys
import json
import shutil

VERIF = os.path.dirname(os.path.dirname(os.path.abspath(__file__)))
AUTHOR_R6 = ('sub-agent asked for a change that breaks the property only at a boundary value, a rarely used argument kind or mode, '
          'a falsy-but-legal value or through two cooperating edits (saw the property text, a scratch worktree and one-line '
          'descriptions of earlier rounds; no /verif)')


AUTHORS = {6: AUTHOR_R6,
           7: ('sub-agent asked to play a maintainer making the tool faster or tidier and getting it subtly wrong: caches and memos '
               'with too coarse a key or no invalidation, fast paths, lazy evaluation, early exits, shared objects (saw the property '
               'text, a scratch worktree and one-line descriptions of earlier rounds; no /verif)'),
           8: ('sub-agent asked for a change that breaks the property only through error paths, recovery and feature interplay: the '
               'state left behind after something went slightly wrong and was handled (a rejected command, a warning, an unresolvable '
               'object, a line that is not a message, a duplicate open/close, a caught exception, an interrupt), clean-up paths, or two '
               'features that each work alone; written as a plausible well-meaning commit (saw the property text, a scratch worktree '
               'and one-line descriptions of earlier rounds; no /verif)'),
           9: ('sub-agent asked for one change that needs BOTH a history of at least three steps (two connections, several commands, '
               'open/close/re-open) AND something untimely inside it: an interrupt while reading or writing, input ending or a '
               'connection closed at an odd point, a partial read, a slow peer, a thread switch, a caught exception, exactly equal '
               'timestamps (saw the property text, a scratch worktree and one-line descriptions of earlier rounds; no /verif)')}


def main():
    src, rnd, desc = sys.argv[1], int(sys.argv[2]), json.load(open(sys.argv[3]))
    AUTHOR = AUTHORS[rnd]
    for prop in sorted(desc):
        for k, suffix in enumerate(['', '2']):
            d = os.path.join(src, prop)
            rp = os.path.join(d, 'result%s.json' % suffix)
            if not os.path.exists(rp):
                continue
            r = json.load(open(rp))
            ok = r.get('patch_applies') and r.get('suite_still_passes') and r.get('demo_fails_with_patch') and r.get('demo_passes_without')
            if not ok:
                print(prop, suffix, 'NOT stored:', {x: r.get(x) for x in ('patch_applies', 'suite_still_passes', 'demo_fails_with_patch', 'demo_passes_without')})
                continue
            n = 1 + max([int(x.split('-')[1]) for x in os.listdir(os.path.join(VERIF, 'seeded')) if x.startswith(prop + '-')] or [0])
            sid = '%s-%d' % (prop, n)
            dst = os.path.join(VERIF, 'seeded', sid)
            os.makedirs(dst)
            shutil.copy(os.path.join(d, 'patch%s.diff' % suffix), os.path.join(dst, 'patch.diff'))
            shutil.copy(os.path.join(d, 'demo%s.py' % suffix), os.path.join(dst, 'demo.py'))
            if os.path.exists(os.path.join(d, 'notes.md')):
                shutil.copy(os.path.join(d, 'notes.md'), os.path.join(dst, 'notes.md'))
            files = re.findall(r'^\+\+\+ b/(\S+)', open(os.path.join(dst, 'patch.diff')).read(), re.M)
            chk = r.get('checks', {}).get(prop, {})
            meta = {
                'id': sid, 'round': rnd, 'property': prop, 'author': AUTHOR, 'files_changed': files,
                'needs_to_manifest': desc[prop][k],
                'confirmed_by_me': {
                    'patch_applies': True, 'baseline_214_still_pass': True, 'demo_fails_with_patch': True, 'demo_passes_without': True,
                    'how': 'tools/seedcheck.py (scratch copy; patch -p1; baseline suite; demo on both trees; VERIF_REPO=<copy> ./check %s --tier quick; copy removed)' % prop},
                'caught_by_check': prop if r.get('caught_by_own_check') else None,
                'violation_reported': (chk.get('detail') or '').split(':')[0][:90] if r.get('caught_by_own_check') else None,
            }
            json.dump(meta, open(os.path.join(dst, 'meta.json'), 'w'), indent=1)
            print('| %s | %s | %s | %s | %s | `%s` |' % (sid, prop, ', '.join(files), desc[prop][k], 'caught' if meta['caught_by_check'] else 'NOT caught',
                                                      meta['violation_reported'] or '-'))


if __name__ == '__main__':
    main()
