import os
import sys
sys.path.insert(0, os.path.dirname(os.path.dirname(os.path.abspath(__file__))))
sys.dont_write_bytecode = True
from sim import harness  # noqa: E402

if __name__ == '__main__':
    sys.exit(harness.worker_main(sys.argv[1:]))
