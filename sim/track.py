"""Observation of the tool's object attribution and lifetimes at the anchored points
(Connection.messages()[i].obj / .args[j].obj / .destroyed_obj; alive / times of reachable objects),
through a listener registered on the tool's public ConnectionList / Connection interfaces."""
from . import rig


class ObjSnap:
    __slots__ = ('pyid', 'resolved', 'type', 'id', 'gen', 'alive', 'create_time', 'destroy_time', 'lifespan')

    def __init__(self, o):
        self.pyid = id(o)
        self.resolved = bool(o.resolved())
        self.type = o.type
        self.id = o.id
        self.gen = o.generation
        self.alive = o.alive
        self.create_time = o.create_time
        self.destroy_time = o.destroy_time
        try:
            self.lifespan = o.lifespan()
        except Exception:
            self.lifespan = None

    def tup(self):
        return (self.type, self.id, self.gen)


class MsgSnap:
    __slots__ = ('seq', 'conn_name', 'index', 'name', 'sent', 'timestamp', 'target', 'args', 'destroyed',
                 'alive_after', 'msg')


class Tracker:
    """created per run; make() returns the listener object (built from the tool's interface classes)"""

    def __init__(self, rec):
        self.rec = rec
        self.conns = []           # tool Connection objects in order of opening
        self.msgs = {}            # conn name -> [MsgSnap]
        self.objects = {}         # conn name -> {pyid: obj}  (objects reachable from messages so far)
        self.keep = []            # keep python objects alive so id() stays unique
        self.opened = []          # (seq, name, is_server)
        self.closed = []          # (seq, name)

    def make(self):
        t = rig.tool()
        CL = t['interfaces'].ConnectionList
        CN = t['interfaces'].Connection
        Arg = t['wl'].Arg
        tracker = self

        class L(CL.Listener, CN.Listener):
            def connection_opened(self, connection_list, connection):
                tracker.conns.append(connection)
                tracker.msgs[connection.name()] = []
                tracker.objects[connection.name()] = {}
                tracker.opened.append((tracker.rec.add('t-open', connection.name()), connection.name(),
                                       connection.is_server()))
                connection.add_connection_listener(self)

            def connection_str_changed(self, connection):
                pass

            def connection_app_id_set(self, connection, new_app_id):
                pass

            def connection_closed(self, connection):
                tracker.closed.append((tracker.rec.add('t-close', connection.name()), connection.name()))

            def connection_got_new_message(self, connection, message):
                name = connection.name()
                s = MsgSnap()
                s.seq = tracker.rec.add('t-msg', (name, len(tracker.msgs[name])))
                s.conn_name = name
                s.index = len(tracker.msgs[name])
                s.name = message.name
                s.sent = message.sent
                s.timestamp = message.timestamp
                s.msg = message
                objs = tracker.objects[name]

                def see(o):
                    if id(o) not in objs:
                        objs[id(o)] = o
                        tracker.keep.append(o)
                    return ObjSnap(o)
                s.target = see(message.obj)
                s.args = []
                for a in message.args:
                    if isinstance(a, Arg.Object):
                        s.args.append(('obj', see(a.obj), bool(a.is_new)))
                    elif isinstance(a, Arg.Null):
                        s.args.append(('null', a.type, None))
                    else:
                        s.args.append((type(a).__name__, getattr(a, 'value', None), None))
                s.destroyed = see(message.destroyed_obj) if message.destroyed_obj is not None else None
                s.alive_after = {pid: (o.alive, o.destroy_time) for pid, o in objs.items()}
                tracker.msgs[name].append(s)
        self.listener = L()
        return self.listener
